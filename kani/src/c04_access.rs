//! C04 — cell access is bounds-safe, endian-correct and local.
//!
//! Kernel harnesses: one per accessor family. The archive has a symbolic size 0..=8 and symbolic
//! content; the address (and length, where there is one) ranges over the whole of `usize`; the value
//! over every bit pattern; the endianness is symbolic. CBMC also proves the absence of panics
//! (arithmetic overflow, slice/index errors, unwrap) on every path.
use crate::util::*;
use mila::{BinArchive, BinArchiveReader, BinArchiveWriter, Endian};


/// Compare a stream access with the positional access at the same address.
macro_rules! same {
    ($x:expr, $y:expr, $eq:expr) => {{
        let x = $x;
        let y = $y;
        let y_ok = y.is_some();
        assert!(x.is_some() == y_ok, "C04: stream access and positional access disagree on success");
        if let (Some(v), Some(u)) = (x, y) {
            assert!($eq(&v, &u), "C04: stream access returned a different value than the positional access at the cursor");
        }
        y_ok
    }};
}

fn expect_bytes<const W: usize>(content: &[u8; MAXSZ], addr: usize) -> [u8; W] {
    let mut out = [0u8; W];
    for i in 0..W {
        out[i] = content[addr + i];
    }
    out
}

/// After a write attempt: only the addressed bytes may differ, and only when it succeeded.
fn check_locality<const W: usize>(
    a: &BinArchive,
    before: &[u8; MAXSZ],
    size: usize,
    addr: usize,
    ok: bool,
    enc: [u8; W],
) {
    assert!(a.size() == size, "C04: write changed the archive size");
    let after = snapshot(a);
    for i in 0..MAXSZ {
        if ok && i >= addr && i - addr < W {
            assert!(after[i] == enc[i - addr], "C04: written bytes are not the value in the archive's endianness");
        } else {
            assert!(after[i] == before[i], "C04: write changed a byte outside the addressed range (or changed data although it failed)");
        }
    }
}

// @tier quick
// @timeout 400
// @bounds size 0..=8 symbolic bytes; address any usize; both endiannesses
// @claims read_u8/read_i8: Ok iff address < size; value = the byte; no panic
#[kani::proof]
#[kani::unwind(10)]
fn c04_read_8() {
    let e = any_endian();
    let (a, size, content) = any_archive(8, e);
    let addr: usize = kani::any();
    let r = keep(a.read_u8(addr));
    let s = keep(a.read_i8(addr));
    assert!(r.is_some() == in_range(addr, 1, size), "C04: read_u8 success is not equivalent to the range lying inside the data");
    assert!(s.is_some() == r.is_some(), "C04: read_i8 and read_u8 disagree on bounds");
    if let Some(v) = r {
        assert!(v == content[addr], "C04: read_u8 value");
        assert!(s.unwrap() == content[addr] as i8, "C04: read_i8 value");
    }
    kani::cover!(r.is_some());
    kani::cover!(r.is_none());
}

// @tier quick
// @timeout 400
// @bounds size 0..=8 symbolic bytes; address any usize; both endiannesses
// @claims read_u16/read_i16: Ok iff [address, address+2) inside data; value per endianness; no panic
#[kani::proof]
#[kani::unwind(10)]
fn c04_read_16() {
    let e = any_endian();
    let (a, size, content) = any_archive(8, e);
    let addr: usize = kani::any();
    let r = keep(a.read_u16(addr));
    let s = keep(a.read_i16(addr));
    assert!(r.is_some() == in_range(addr, 2, size), "C04: read_u16 success is not equivalent to the range lying inside the data");
    assert!(s.is_some() == r.is_some(), "C04: read_i16 and read_u16 disagree on bounds");
    if let Some(v) = r {
        let raw: [u8; 2] = expect_bytes(&content, addr);
        let want = if is_little(e) { u16::from_le_bytes(raw) } else { u16::from_be_bytes(raw) };
        assert!(v == want, "C04: read_u16 value/endianness");
        assert!(s.unwrap() == want as i16, "C04: read_i16 value/endianness");
    }
    kani::cover!(r.is_some());
    kani::cover!(r.is_none() && addr < size);
}

// @tier quick
// @timeout 400
// @bounds size 0..=8 symbolic bytes; address any usize; both endiannesses
// @claims read_u32/read_i32/read_f32: Ok iff [address, address+4) inside data; value per endianness (f32 by bits); no panic
#[kani::proof]
#[kani::unwind(10)]
fn c04_read_32() {
    let e = any_endian();
    let (a, size, content) = any_archive(8, e);
    let addr: usize = kani::any();
    let r = keep(a.read_u32(addr));
    let s = keep(a.read_i32(addr));
    let f = keep(a.read_f32(addr));
    assert!(r.is_some() == in_range(addr, 4, size), "C04: read_u32 success is not equivalent to the range lying inside the data");
    assert!(s.is_some() == r.is_some(), "C04: read_i32 and read_u32 disagree on bounds");
    assert!(f.is_some() == r.is_some(), "C04: read_f32 and read_u32 disagree on bounds");
    if let Some(v) = r {
        let raw: [u8; 4] = expect_bytes(&content, addr);
        let want = if is_little(e) { u32::from_le_bytes(raw) } else { u32::from_be_bytes(raw) };
        assert!(v == want, "C04: read_u32 value/endianness");
        assert!(s.unwrap() == want as i32, "C04: read_i32 value/endianness");
        assert!(f.unwrap().to_bits() == want, "C04: read_f32 bits/endianness");
    }
    kani::cover!(r.is_some());
    kani::cover!(r.is_none() && addr < size);
}

// @tier quick
// @timeout 400
// @bounds size 0..=8; address any usize; amount any usize; both endiannesses
// @claims read_bytes: never panics; for amount>=1 Ok iff the range is inside the data, returning exactly those bytes
#[kani::proof]
#[kani::unwind(10)]
fn c04_read_bytes() {
    let e = any_endian();
    let (a, size, content) = any_archive(8, e);
    let addr: usize = kani::any();
    let amount: usize = kani::any();
    let r = keep(a.read_bytes(addr, amount));
    if amount >= 1 {
        assert!(r.is_some() == in_range(addr, amount, size), "C04: read_bytes success is not equivalent to the range lying inside the data");
    }
    if let Some(bytes) = r {
        assert!(bytes.len() == amount, "C04: read_bytes length");
        assert!(addr <= size && size - addr >= amount, "C04: read_bytes returned Ok for a range outside the data");
        for i in 0..MAXSZ {
            if i < amount {
                assert!(bytes[i] == content[addr + i], "C04: read_bytes content");
            }
        }
    }
    kani::cover!(amount > 1 && keep(a.read_bytes(addr, amount)).is_some());
    kani::cover!(addr > usize::MAX - 4 && amount > 8);
}

// @tier quick
// @timeout 400
// @bounds size 0..=8; address any usize; value any; both endiannesses
// @claims write_u8/write_i8: Ok iff address < size; only that byte changes; read-back identity; Err leaves data unchanged
#[kani::proof]
#[kani::unwind(10)]
fn c04_write_8() {
    let e = any_endian();
    let (mut a, size, before) = any_archive(8, e);
    let before = {
        let mut b = before;
        for i in 0..MAXSZ {
            if i >= size {
                b[i] = 0;
            }
        }
        b
    };
    let addr: usize = kani::any();
    let v: u8 = kani::any();
    let signed: bool = kani::any();
    let w = if signed { keep(a.write_i8(addr, v as i8)) } else { keep(a.write_u8(addr, v)) };
    assert!(w.is_some() == in_range(addr, 1, size), "C04: write_u8/i8 success is not equivalent to the range lying inside the data");
    check_locality::<1>(&a, &before, size, addr, w.is_some(), [v]);
    if w.is_some() {
        assert!(keep(a.read_u8(addr)).unwrap() == v, "C04: read-after-write u8");
        assert!(keep(a.read_i8(addr)).unwrap() == v as i8, "C04: read-after-write i8");
    }
    kani::cover!(w.is_some());
    kani::cover!(w.is_none());
}

fn zero_tail(content: [u8; MAXSZ], size: usize) -> [u8; MAXSZ] {
    let mut b = content;
    for i in 0..MAXSZ {
        if i >= size {
            b[i] = 0;
        }
    }
    b
}

// @tier quick
// @timeout 400
// @bounds size 0..=8; address any usize; value any; both endiannesses
// @claims write_u16/write_i16: Ok iff range inside data; bytes = to_le/to_be_bytes; nothing else changes; read-back identity
#[kani::proof]
#[kani::unwind(10)]
fn c04_write_16() {
    let e = any_endian();
    let (mut a, size, content) = any_archive(8, e);
    let before = zero_tail(content, size);
    let addr: usize = kani::any();
    let v: u16 = kani::any();
    let signed: bool = kani::any();
    let w = if signed { keep(a.write_i16(addr, v as i16)) } else { keep(a.write_u16(addr, v)) };
    assert!(w.is_some() == in_range(addr, 2, size), "C04: write_u16/i16 success is not equivalent to the range lying inside the data");
    let enc = if is_little(e) { v.to_le_bytes() } else { v.to_be_bytes() };
    check_locality::<2>(&a, &before, size, addr, w.is_some(), enc);
    if w.is_some() {
        assert!(keep(a.read_u16(addr)).unwrap() == v, "C04: read-after-write u16");
        assert!(keep(a.read_i16(addr)).unwrap() == v as i16, "C04: read-after-write i16");
    }
    kani::cover!(w.is_some());
    kani::cover!(w.is_none() && addr < size);
}

// @tier quick
// @timeout 400
// @bounds size 0..=8; address any usize; value any 32-bit pattern (NaN payloads included); both endiannesses
// @claims write_u32/write_i32/write_f32: Ok iff range inside data; bytes = to_le/to_be_bytes; nothing else changes; read-back identity (f32 by bits)
#[kani::proof]
#[kani::unwind(10)]
fn c04_write_32() {
    let e = any_endian();
    let (mut a, size, content) = any_archive(8, e);
    let before = zero_tail(content, size);
    let addr: usize = kani::any();
    let v: u32 = kani::any();
    let kind: u8 = kani::any();
    kani::assume(kind < 3);
    let w = match kind {
        0 => keep(a.write_u32(addr, v)),
        1 => keep(a.write_i32(addr, v as i32)),
        _ => keep(a.write_f32(addr, f32::from_bits(v))),
    };
    assert!(w.is_some() == in_range(addr, 4, size), "C04: write_u32/i32/f32 success is not equivalent to the range lying inside the data");
    let enc = if is_little(e) { v.to_le_bytes() } else { v.to_be_bytes() };
    check_locality::<4>(&a, &before, size, addr, w.is_some(), enc);
    if w.is_some() {
        assert!(keep(a.read_u32(addr)).unwrap() == v, "C04: read-after-write u32");
        assert!(keep(a.read_i32(addr)).unwrap() == v as i32, "C04: read-after-write i32");
        assert!(keep(a.read_f32(addr)).unwrap().to_bits() == v, "C04: read-after-write f32 (bit pattern, NaN payload included)");
    }
    kani::cover!(w.is_some() && kind == 2);
    kani::cover!(w.is_none() && addr < size);
}

// @tier quick
// @timeout 400
// @bounds size 0..=8; address any usize; source slice of symbolic length 0..=8; both endiannesses
// @claims write_bytes: never panics; for len>=1 Ok iff range inside data; exactly those bytes change; Err leaves data unchanged
#[kani::proof]
#[kani::unwind(10)]
fn c04_write_bytes() {
    let e = any_endian();
    let (mut a, size, content) = any_archive(8, e);
    let before = zero_tail(content, size);
    let addr: usize = kani::any();
    let len: usize = kani::any();
    kani::assume(len <= MAXSZ);
    let src: [u8; MAXSZ] = kani::any();
    let w = keep(a.write_bytes(addr, &src[..len]));
    if len >= 1 {
        assert!(w.is_some() == in_range(addr, len, size), "C04: write_bytes success is not equivalent to the range lying inside the data");
    }
    assert!(a.size() == size, "C04: write_bytes changed the size");
    let after = snapshot(&a);
    for i in 0..MAXSZ {
        if w.is_some() && i >= addr && i - addr < len {
            assert!(after[i] == src[i - addr], "C04: write_bytes content");
        } else {
            assert!(after[i] == before[i], "C04: write_bytes changed a byte outside the range (or although it failed)");
        }
    }
    kani::cover!(w.is_some() && len > 1);
    kani::cover!(w.is_none() && addr < size);
}

// @tier quick
// @timeout 400
// @bounds size 0..=8 symbolic bytes; any address whose 4-byte cell is NOT inside the data (whole usize range); pointer target any usize; one call of symbolic kind out of 14
// @claims string / pointer / c-string-write / label accessors outside the data: the call is an error (label writes: error iff address > size), nothing panics, bytes and size unchanged
#[kani::proof]
#[kani::unwind(10)]
fn c04_annotation_reject() {
    let e = any_endian();
    let (mut a, size, content) = any_archive(8, e);
    let before = zero_tail(content, size);
    let addr: usize = kani::any();
    let target: usize = kani::any();
    kani::assume(!in_range(addr, 4, size));
    let kind: u8 = kani::any();
    kani::assume(kind < 14);
    let ok = match kind {
        0 => keep(a.write_string(addr, Some("A"))).is_some(),
        1 => keep(a.write_string(addr, None)).is_some(),
        2 => keep(a.write_pointer(addr, Some(target))).is_some(),
        3 => keep(a.write_pointer(addr, None)).is_some(),
        4 => keep(a.write_c_string(addr, String::new())).is_some(),
        5 => keep(a.read_string(addr)).is_some(),
        6 => keep(a.read_pointer(addr)).is_some(),
        7 => keep(a.read_labels(addr)).is_some(),
        8 => keep(a.delete_string(addr)).is_some(),
        9 => keep(a.delete_pointer(addr)).is_some(),
        10 => keep(a.delete_labels(addr)).is_some(),
        11 => keep(a.delete_label(addr, 0)).is_some(),
        12 => keep(a.write_label(addr, "L")).is_some() && addr > size,
        _ => keep(a.write_labels(addr, Vec::new())).is_some() && addr > size,
    };
    assert!(!ok, "C04: an annotation access outside the data (label writes: beyond the end address) must be an error");
    assert!(a.size() == size, "C04: a rejected annotation access changed the size");
    let after = snapshot(&a);
    for i in 0..MAXSZ {
        assert!(after[i] == before[i], "C04: a rejected annotation access changed data");
    }
    kani::cover!(addr < size && kind == 0);
    kani::cover!(addr > usize::MAX - 4 && kind == 7);
    kani::cover!(addr == size && kind == 11);
    std::mem::forget(a);
}

fn c_string_archive(e: Endian) -> BinArchive {
    let mut a = BinArchive::new(e);
    a.allocate_at_end(8);
    keep(a.write_bytes(0, &[0, 0, 0, 0, b'h', b'i', 0, 0])).unwrap();
    a
}

// @tier quick
// @timeout 400
// @bounds size 8; cell 0 holds a pointer whose target is any usize >= 8, or no pointer; any address (whole usize range)
// @claims read_c_string never panics: error when the cell is outside the data or the pointer target leaves the data, Ok(None) when the cell has no pointer
// @assume encoding_rs decode replaced by the 7-bit model (stubs.rs)
#[kani::proof]
#[kani::unwind(10)]
#[kani::stub(encoding_rs::Encoding::decode, crate::stubs::decode_ascii_model)]
fn c04_c_string_read_reject() {
    let mut a = c_string_archive(any_endian());
    let target: usize = kani::any();
    kani::assume(target >= 8);
    let has: bool = kani::any();
    if has {
        keep(a.write_pointer(0, Some(target))).unwrap();
    }
    let addr: usize = kani::any();
    let r = keep(a.read_c_string(addr));
    if !in_range(addr, 4, 8) {
        assert!(r.is_none(), "C04: read_c_string outside the data must be an error");
    } else if addr != 0 || !has {
        assert!(matches!(r, Some(None)), "C04: read_c_string on a cell without pointer must be Ok(None)");
    } else {
        assert!(r.is_none(), "C04: read_c_string through a pointer that leaves the data must be an error");
    }
    kani::cover!(has && addr == 0 && target > 8);
    kani::cover!(!has && addr == 4);
    kani::cover!(addr > usize::MAX - 2);
    std::mem::forget(r);
    std::mem::forget(a);
}

// @tier quick
// @timeout 400
// @bounds size 8 holding the bytes "hi\0\0" at 4; pointer in cell 0 to target 4, 5 or 6 (chosen by the solver)
// @claims read_c_string returns the NUL-terminated text that starts at the pointer target
// @assume encoding_rs decode replaced by the 7-bit model (stubs.rs)
#[kani::proof]
#[kani::unwind(10)]
#[kani::stub(encoding_rs::Encoding::decode, crate::stubs::decode_ascii_model)]
fn c04_c_string_read_accept() {
    let sel: u8 = kani::any();
    kani::assume(sel < 3);
    let mut a = c_string_archive(any_endian());
    if sel == 0 {
        keep(a.write_pointer(0, Some(4))).unwrap();
        let r = keep(a.read_c_string(0)).unwrap().unwrap();
        assert!(r == "hi", "C04: read_c_string must return the NUL-terminated text at the pointer target");
        std::mem::forget(r);
    }
    if sel == 1 {
        keep(a.write_pointer(0, Some(5))).unwrap();
        let r = keep(a.read_c_string(0)).unwrap().unwrap();
        assert!(r == "i", "C04: read_c_string must return the NUL-terminated text at the pointer target");
        std::mem::forget(r);
    }
    if sel == 2 {
        keep(a.write_pointer(0, Some(6))).unwrap();
        let r = keep(a.read_c_string(0)).unwrap().unwrap();
        assert!(r == "", "C04: read_c_string must return the NUL-terminated text at the pointer target");
        std::mem::forget(r);
    }
    kani::cover!(sel == 2);
    std::mem::forget(a);
}

fn string_pointer_accept_at(addr: usize, size: usize) {
    let e = any_endian();
    let content: [u8; MAXSZ] = kani::any();
    let target: usize = kani::any();
    let mut a = BinArchive::new(e);
    a.allocate_at_end(size);
    keep(a.write_bytes(0, &content[..size])).unwrap();
    assert!(keep(a.write_string(addr, Some("A"))).is_some(), "C04: write_string inside the data must succeed");
    assert!(keep(a.write_pointer(addr, Some(target))).is_some(), "C04: write_pointer inside the data must succeed");
    assert!(keep(a.read_string(addr)).unwrap().as_deref() == Some("A"), "C04: read_string does not return the written string");
    assert!(keep(a.read_pointer(addr)).unwrap() == Some(target), "C04: read_pointer does not return the written pointer");
    keep(a.write_string(addr, Some("BC"))).unwrap();
    assert!(keep(a.read_string(addr)).unwrap().as_deref() == Some("BC"), "C04: overwritten string");
    keep(a.write_string(addr, None)).unwrap();
    assert!(keep(a.read_string(addr)).unwrap().is_none(), "C04: write_string(None) must delete");
    keep(a.delete_pointer(addr)).unwrap();
    assert!(keep(a.read_pointer(addr)).unwrap().is_none(), "C04: delete_pointer must delete");
    keep(a.write_pointer(addr, Some(target))).unwrap();
    keep(a.write_pointer(addr, None)).unwrap();
    assert!(keep(a.read_pointer(addr)).unwrap().is_none(), "C04: write_pointer(None) must delete");
    keep(a.write_string(addr, Some("A"))).unwrap();
    keep(a.delete_string(addr)).unwrap();
    assert!(keep(a.read_string(addr)).unwrap().is_none(), "C04: delete_string must delete");
    keep(a.write_string(addr, Some("A"))).unwrap();
    let after = snapshot(&a);
    for i in 0..MAXSZ {
        if i < size {
            assert!(after[i] == content[i], "C04: annotation accessor disturbed raw bytes");
        }
    }
    assert!(a.size() == size, "C04: annotation accessor changed the size");
    if size == 8 && (addr == 0 || addr == 4) {
        let other = 4 - addr;
        assert!(keep(a.read_string(other)).unwrap().is_none() && keep(a.read_pointer(other)).unwrap().is_none(), "C04: annotation leaked into another cell");
    }
    std::mem::forget(a);
}

// @tier quick
// @timeout 400
// @bounds (size, address) in {(8,0),(8,3),(8,4),(5,1)} chosen by the solver; symbolic bytes; strings "A","BC"; pointer target any usize
// @claims string / pointer accessors inside the data: succeed, read back what was written, overwrite, delete (both forms); raw bytes and size never disturbed; no leak into the other cell
#[kani::proof]
#[kani::unwind(10)]
fn c04_string_pointer_accept() {
    let sel: u8 = kani::any();
    if sel == 0 { string_pointer_accept_at(0, 8); }
    if sel == 1 { string_pointer_accept_at(3, 8); }
    if sel == 2 { string_pointer_accept_at(4, 8); }
    if sel == 3 { string_pointer_accept_at(1, 5); }
    kani::cover!(sel == 3);
}

fn label_accept_at(addr: usize, size: usize, which: usize) {
    let e = any_endian();
    let content: [u8; MAXSZ] = kani::any();
    let mut a = BinArchive::new(e);
    a.allocate_at_end(size);
    if size > 0 {
        keep(a.write_bytes(0, &content[..size])).unwrap();
    }
    assert!(keep(a.write_label(addr, "L")).is_some(), "C04: write_label must succeed for addresses <= size");
    assert!(keep(a.write_label(addr, "M")).is_some(), "C04: second write_label must succeed");
    let r = keep(a.read_labels(addr));
    assert!(r.is_some() == in_range(addr, 4, size), "C04: read_labels success is not equivalent to the cell lying inside the data");
    if let Some(l) = r {
        let l = l.unwrap();
        assert!(l.len() == 2 && l[0] == "L" && l[1] == "M", "C04: labels are not returned in insertion order");
        std::mem::forget(l);
        keep(a.delete_label(addr, which)).unwrap();
        let l2 = keep(a.read_labels(addr)).unwrap().unwrap();
        assert!(l2.len() == 1 && l2[0] == (if which == 1 { "L" } else { "M" }), "C04: delete_label must remove exactly the indexed label");
        std::mem::forget(l2);
        assert!(keep(a.delete_label(addr, 1)).is_none(), "C04: delete_label with a bad index must be an error");
        assert!(keep(a.write_labels(addr, vec!["N".to_string()])).is_some(), "C04: write_labels inside the data must succeed");
        let l3 = keep(a.read_labels(addr)).unwrap().unwrap();
        assert!(l3.len() == 1 && l3[0] == "N", "C04: write_labels must replace the bucket");
        std::mem::forget(l3);
        keep(a.delete_labels(addr)).unwrap();
        assert!(keep(a.read_labels(addr)).unwrap().is_none(), "C04: delete_labels must clear the cell");
    }
    let after = snapshot(&a);
    for i in 0..MAXSZ {
        if i < size {
            assert!(after[i] == content[i], "C04: label accessor disturbed raw bytes");
        }
    }
    assert!(a.size() == size, "C04: label accessor changed the size");
    std::mem::forget(a);
}

// @tier quick
// @timeout 400
// @bounds (size, address, deleted index) in {(8,0,0),(8,3,1),(8,4,0),(8,8,0)} chosen by the solver; symbolic bytes; label names "L","M","N"
// @claims label accessors: write succeeds for every address <= size (end address and unaligned included); labels come back in insertion order; delete_label removes exactly the indexed one; write_labels replaces, delete_labels clears; raw bytes never disturbed
#[kani::proof]
#[kani::unwind(10)]
fn c04_label_accept() {
    let sel: u8 = kani::any();
    if sel == 0 { label_accept_at(0, 8, 0); }
    if sel == 1 { label_accept_at(3, 8, 1); }
    if sel == 2 { label_accept_at(4, 8, 0); }
    if sel == 3 { label_accept_at(8, 8, 0); }
    kani::cover!(sel == 3);
}

// @tier quick
// @timeout 400
// @bounds (size, address, deleted index) in {(8,0,1),(8,5,0),(6,2,0),(6,6,0),(0,0,0)} chosen by the solver; symbolic bytes; label names "L","M","N"
// @claims as c04_label_accept, for unaligned sizes, the empty archive and deletion of the second label
#[kani::proof]
#[kani::unwind(10)]
fn c04_label_accept_b() {
    let sel: u8 = kani::any();
    if sel == 0 { label_accept_at(0, 8, 1); }
    if sel == 1 { label_accept_at(5, 8, 0); }
    if sel == 2 { label_accept_at(2, 6, 0); }
    if sel == 3 { label_accept_at(6, 6, 0); }
    if sel == 4 { label_accept_at(0, 0, 0); }
    kani::cover!(sel == 4);
}

// @tier quick
// @timeout 400
// @bounds size 0..=8 symbolic bytes; cursor any usize; one numeric stream read of symbolic kind (u8,i8,u16,i16,u32,i32,f32)
// @claims BinArchiveReader numeric reads equal the positional call at the cursor; cursor advances by exactly the width on success and not at all on failure
#[kani::proof]
#[kani::unwind(10)]
fn c04_reader_numeric() {
    let e = any_endian();
    let (a, size, _content) = any_archive(8, e);
    let pos: usize = kani::any();
    let kind: u8 = kani::any();
    kani::assume(kind < 7);
    let mut r = BinArchiveReader::new(&a, pos);
    assert!(r.tell() == pos);
    let (ok, width): (bool, usize) = match kind {
        0 => (same!(keep(r.read_u8()), keep(a.read_u8(pos)), |x: &u8, y: &u8| x == y), 1),
        1 => (same!(keep(r.read_i8()), keep(a.read_i8(pos)), |x: &i8, y: &i8| x == y), 1),
        2 => (same!(keep(r.read_u16()), keep(a.read_u16(pos)), |x: &u16, y: &u16| x == y), 2),
        3 => (same!(keep(r.read_i16()), keep(a.read_i16(pos)), |x: &i16, y: &i16| x == y), 2),
        4 => (same!(keep(r.read_u32()), keep(a.read_u32(pos)), |x: &u32, y: &u32| x == y), 4),
        5 => (same!(keep(r.read_i32()), keep(a.read_i32(pos)), |x: &i32, y: &i32| x == y), 4),
        _ => (same!(keep(r.read_f32()), keep(a.read_f32(pos)), |x: &f32, y: &f32| x.to_bits() == y.to_bits()), 4),
    };
    assert!(ok == in_range(pos, width, size), "C04: stream read success is not equivalent to the range lying inside the data");
    if ok {
        assert!(r.tell() == pos + width, "C04: reader cursor must advance by exactly the width of a successful access");
    } else {
        assert!(r.tell() == pos, "C04: reader cursor moved although the access failed");
    }
    kani::cover!(ok && kind == 4);
    kani::cover!(ok && kind == 1);
    kani::cover!(!ok && pos < size);
}

fn reader_annotation_at(pos: usize, kind: u8, index: usize, has: bool) {
    let e = any_endian();
    let mut a = BinArchive::new(e);
    a.allocate_at_end(8);
    keep(a.write_bytes(0, &[0, 0, 0, 0, b'h', b'i', 0, 0])).unwrap();
    if has {
        keep(a.write_string(0, Some("A"))).unwrap();
        keep(a.write_pointer(0, Some(4))).unwrap();
        keep(a.write_label(0, "L")).unwrap();
        keep(a.write_label(0, "M")).unwrap();
    }
    let mut r = BinArchiveReader::new(&a, pos);
    let (ok, width): (bool, usize) = match kind {
        0 => (same!(keep(r.read_string()), keep(a.read_string(pos)), |x: &Option<String>, y: &Option<String>| x == y), 4),
        1 => (same!(keep(r.read_pointer()), keep(a.read_pointer(pos)), |x: &Option<usize>, y: &Option<usize>| x == y), 4),
        2 => (same!(keep(r.read_labels()), keep(a.read_labels(pos)), |x: &Option<Vec<String>>, y: &Option<Vec<String>>| x == y), 0),
        3 => (same!(keep(r.read_label(index)), keep(a.read_labels(pos)), |x: &Option<String>, y: &Option<Vec<String>>| {
            let want = match y { Some(b) if index < b.len() => Some(b[index].clone()), _ => None };
            *x == want
        }), 0),
        _ => (same!(keep(r.read_c_string()), keep(a.read_c_string(pos)), |x: &Option<String>, y: &Option<String>| x == y), 4),
    };
    assert!(ok == in_range(pos, 4, 8), "C04: stream annotation read success is not equivalent to the cell lying inside the data");
    if ok {
        assert!(r.tell() == pos + width, "C04: reader cursor must advance by exactly 4 after a successful string/pointer/c-string read and not at all after a label read");
    } else {
        assert!(r.tell() == pos, "C04: reader cursor moved although the access failed");
    }
    std::mem::forget(a);
}

// @tier quick
// @timeout 400
// @bounds size 8; cell 0 carries string "A", pointer to a c-string "hi" and labels "L","M" (or nothing); cursor in {0,1,4,5} or any cursor > 8 (whole usize range); kind in string/pointer/labels/label(i)/c_string with i in {0,1,2}
// @claims BinArchiveReader annotation reads equal the positional call at the cursor; cursor advances by 4 on success (0 for label reads) and not at all on failure
// @assume encoding_rs decode replaced by the 7-bit model (stubs.rs)
#[kani::proof]
#[kani::unwind(10)]
#[kani::stub(encoding_rs::Encoding::decode, crate::stubs::decode_ascii_model)]
fn c04_reader_annotations() {
    let sel: u8 = kani::any();
    if sel == 0 { reader_annotation_at(0, 0, 0, true); }
    if sel == 1 { reader_annotation_at(0, 1, 0, true); }
    if sel == 2 { reader_annotation_at(0, 2, 0, true); }
    if sel == 3 { reader_annotation_at(0, 3, 0, true); }
    if sel == 4 { reader_annotation_at(0, 3, 1, true); }
    if sel == 5 { reader_annotation_at(0, 3, 2, true); }
    if sel == 6 { reader_annotation_at(0, 4, 0, true); }
    kani::cover!(sel == 6);
}

// @tier quick
// @timeout 400
// @bounds as c04_reader_annotations, for cursors 1,4,5,9, usize::MAX-3, usize::MAX and cells without annotations
// @claims as c04_reader_annotations (failure side: cursor unchanged; empty cells read as None)
// @assume encoding_rs decode replaced by the 7-bit model (stubs.rs)
#[kani::proof]
#[kani::unwind(10)]
#[kani::stub(encoding_rs::Encoding::decode, crate::stubs::decode_ascii_model)]
fn c04_reader_annotations_b() {
    let sel: u8 = kani::any();
    if sel == 7 { reader_annotation_at(4, 0, 0, true); }
    if sel == 8 { reader_annotation_at(4, 3, 0, true); }
    if sel == 9 { reader_annotation_at(1, 2, 0, true); }
    if sel == 10 { reader_annotation_at(0, 3, 0, false); }
    if sel == 12 { reader_annotation_at(5, 1, 0, true); }
    if sel == 14 { reader_annotation_at(9, 3, 0, true); }
    if sel == 15 { reader_annotation_at(usize::MAX, 0, 0, true); }
    if sel == 16 { reader_annotation_at(usize::MAX - 3, 2, 0, true); }
    kani::cover!(sel == 9);
    kani::cover!(sel == 16);
}

// @tier offline
// @offline not registered: exceeded the quick limits and was not run to completion
// @timeout 900
// @mem 20
// @bounds size 8; stream read_c_string at cursor 0 without pointer, at cursor 6 (cell leaves the data) and at usize::MAX-1
// @claims BinArchiveReader::read_c_string equals the positional call; cursor unchanged on failure
// @assume encoding_rs decode replaced by the 7-bit model (stubs.rs)
#[kani::proof]
#[kani::unwind(10)]
#[kani::stub(encoding_rs::Encoding::decode, crate::stubs::decode_ascii_model)]
fn c04_reader_annotations_c() {
    let sel: u8 = kani::any();
    if sel == 0 { reader_annotation_at(0, 4, 0, false); }
    if sel == 1 { reader_annotation_at(6, 4, 0, true); }
    if sel == 2 { reader_annotation_at(usize::MAX - 1, 4, 0, true); }
    kani::cover!(sel == 2);
}

// @tier quick
// @timeout 400
// @bounds size 0..=8 symbolic bytes; cursor any usize; one numeric stream write of symbolic kind (u8,i8,u16,i16,u32,i32,f32) with a symbolic value
// @claims BinArchiveWriter numeric writes have exactly the effect of the positional call at the cursor; cursor advances by exactly the width on success and not at all on failure
#[kani::proof]
#[kani::unwind(10)]
fn c04_writer_numeric() {
    let e = any_endian();
    let (mut a, size, content) = any_archive(8, e);
    let before = zero_tail(content, size);
    let pos: usize = kani::any();
    let kind: u8 = kani::any();
    kani::assume(kind < 7);
    let v: u32 = kani::any();
    let (got, width, end) = {
        let mut w = BinArchiveWriter::new(&mut a, pos);
        assert!(w.tell() == pos);
        let (x, width) = match kind {
            0 => (keep(w.write_u8(v as u8)), 1),
            1 => (keep(w.write_i8(v as i8)), 1),
            2 => (keep(w.write_u16(v as u16)), 2),
            3 => (keep(w.write_i16(v as i16)), 2),
            4 => (keep(w.write_u32(v)), 4),
            5 => (keep(w.write_i32(v as i32)), 4),
            _ => (keep(w.write_f32(f32::from_bits(v))), 4),
        };
        (x.is_some(), width, w.tell())
    };
    let ok = in_range(pos, width, size);
    assert!(got == ok, "C04: stream write success is not equivalent to the range lying inside the data");
    assert!(end == if ok { pos + width } else { pos }, "C04: writer cursor must advance by exactly the width on success and not at all on failure");
    let le = v.to_le_bytes();
    let be = v.to_be_bytes();
    let after = snapshot(&a);
    for i in 0..MAXSZ {
        if ok && i >= pos && i - pos < width {
            let k = i - pos;
            let want = if is_little(e) { le[k] } else { be[4 - width + k] };
            assert!(after[i] == want, "C04: stream write laid the value out differently from the archive's endianness");
        } else {
            assert!(after[i] == before[i], "C04: stream write changed a byte outside the addressed range");
        }
    }
    assert!(a.size() == size);
    kani::cover!(ok && kind == 6);
    kani::cover!(ok && kind == 3 && !is_little(e));
    kani::cover!(!ok && pos < size);
}

fn writer_annotation_at(pos: usize, kind: u8) {
    let e = any_endian();
    let mut a = BinArchive::new(e);
    a.allocate_at_end(8);
    let target: usize = kani::any();
    let inside = in_range(pos, 4, 8);
    if inside && kind >= 4 {
        keep(a.write_string(pos, Some("Z"))).unwrap();
        keep(a.write_pointer(pos, Some(0))).unwrap();
    }
    let (got, end) = {
        let mut w = BinArchiveWriter::new(&mut a, pos);
        let x = match kind {
            0 => keep(w.write_string(Some("A"))),
            1 => keep(w.write_pointer(Some(target))),
            2 => keep(w.write_label("L")),
            3 => keep(w.write_c_string("C".to_string())),
            4 => keep(w.write_string(None)),
            _ => keep(w.write_pointer(None)),
        };
        (x.is_some(), w.tell())
    };
    let ok = if kind == 2 { pos <= 8 } else { inside };
    assert!(got == ok, "C04: stream annotation write success does not follow the cell/end-address rule");
    let width = if kind == 2 { 0 } else { 4 };
    assert!(end == if ok { pos + width } else { pos }, "C04: writer cursor must advance by 4 after a successful annotation write (0 for labels) and not at all on failure");
    if inside {
        let s = keep(a.read_string(pos)).unwrap();
        let p = keep(a.read_pointer(pos)).unwrap();
        let l = keep(a.read_labels(pos)).unwrap();
        match kind {
            0 => assert!(s.as_deref() == Some("A") && p.is_none() && l.is_none(), "C04: stream write_string did not land on the cursor cell"),
            1 => assert!(p == Some(target) && s.is_none() && l.is_none(), "C04: stream write_pointer did not land on the cursor cell"),
            2 => assert!(l.as_ref().map(|b| b.len() == 1 && b[0] == "L").unwrap_or(false) && s.is_none() && p.is_none(), "C04: stream write_label did not land on the cursor cell"),
            3 => assert!(s.is_none() && p.is_none() && l.is_none(), "C04: stream write_c_string must stay pending"),
            4 => assert!(s.is_none() && p == Some(0), "C04: stream write_string(None) must delete the string only"),
            _ => assert!(p.is_none() && s.as_deref() == Some("Z"), "C04: stream write_pointer(None) must delete the pointer only"),
        }
        std::mem::forget(l);
        std::mem::forget(s);
    }
    let after = snapshot(&a);
    for i in 0..MAXSZ {
        assert!(after[i] == 0, "C04: annotation stream write disturbed raw bytes");
    }
    std::mem::forget(a);
}

// @tier quick
// @timeout 400
// @bounds size 8; cursor in {0,3,4,5,8} or any cursor > 8 (whole usize range); kind in string/pointer(any target)/label/c_string/string None/pointer None
// @claims BinArchiveWriter annotation writes land on the cell at the cursor (visible to the positional reads); cursor advances by 4 on success (0 for label writes) and not at all on failure; raw bytes untouched
#[kani::proof]
#[kani::unwind(10)]
fn c04_writer_annotations() {
    let sel: u8 = kani::any();
    if sel == 0 { writer_annotation_at(0, 0); }
    if sel == 1 { writer_annotation_at(0, 1); }
    if sel == 2 { writer_annotation_at(0, 2); }
    if sel == 3 { writer_annotation_at(0, 3); }
    if sel == 4 { writer_annotation_at(0, 4); }
    if sel == 5 { writer_annotation_at(0, 5); }
    if sel == 6 { writer_annotation_at(3, 0); }
    kani::cover!(sel == 6);
}

// @tier quick
// @timeout 400
// @bounds as c04_writer_annotations, for cursors 4,5,8,9 and usize::MAX-3..=usize::MAX
// @claims as c04_writer_annotations (label write at the end address succeeds without moving the cursor; failures leave cursor and data alone)
#[kani::proof]
#[kani::unwind(10)]
fn c04_writer_annotations_b() {
    let sel: u8 = kani::any();
    if sel == 7 { writer_annotation_at(4, 1); }
    if sel == 8 { writer_annotation_at(4, 3); }
    if sel == 9 { writer_annotation_at(5, 0); }
    if sel == 10 { writer_annotation_at(5, 2); }
    if sel == 11 { writer_annotation_at(8, 2); }
    if sel == 12 { writer_annotation_at(8, 1); }
    if sel == 13 { writer_annotation_at(9, 2); }
    if sel == 14 { writer_annotation_at(usize::MAX, 2); }
    if sel == 15 { writer_annotation_at(usize::MAX - 3, 0); }
    if sel == 16 { writer_annotation_at(usize::MAX - 2, 3); }
    kani::cover!(sel == 11);
    kani::cover!(sel == 16);
}

// @tier quick
// @timeout 400
// @bounds size 8; two operations: a stream write at a symbolic cursor then a positional read at a symbolic address, or a positional write then a stream read
// @claims interleaving stream and positional operations: both views address the same cells (stream write visible to positional read and vice versa)
#[kani::proof]
#[kani::unwind(10)]
fn c04_interleave() {
    let e = any_endian();
    let mut a = BinArchive::new(e);
    a.allocate_at_end(8);
    let pos: usize = kani::any();
    kani::assume(pos <= 4);
    let v: u32 = kani::any();
    let order: bool = kani::any();
    if order {
        let mut w = BinArchiveWriter::new(&mut a, pos);
        keep(w.write_u32(v)).unwrap();
        let t = w.tell();
        assert!(t == pos + 4);
        assert!(keep(a.read_u32(pos)).unwrap() == v, "C04: stream write is not visible to the positional read at the same address");
    } else {
        keep(a.write_u32(pos, v)).unwrap();
        let mut r = BinArchiveReader::new(&a, 0);
        r.seek(pos);
        assert!(keep(r.read_u32()).unwrap() == v, "C04: positional write is not visible to the stream read at the same cursor");
        assert!(r.tell() == pos + 4);
        r.skip(0);
        assert!(r.tell() == pos + 4);
    }
    kani::cover!(order && pos == 3);
    kani::cover!(!order && pos == 4);
}

// @tier quick
// @timeout 400
// @expect witness
// @bounds as c04_write_32
// @claims vacuity witness: the end of a C04 harness body is reachable (this harness must FAIL at its final assert)
#[kani::proof]
#[kani::unwind(10)]
fn c04_witness() {
    let e = any_endian();
    let (mut a, size, _c) = any_archive(8, e);
    let addr: usize = kani::any();
    let w = keep(a.write_u32(addr, 7));
    if w.is_some() && addr < size {
        assert!(false, "VACUITY-WITNESS");
    }
}
