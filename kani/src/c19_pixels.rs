//! C19 — pixel decoding matches the hardware formats.
//!
//! Kernel harnesses over the real decoders: `decode_color` (via the verif_hooks wrapper), the
//! public `ColorFormat` decoders, the public ETC1 `mila::decode`, the tile walk of
//! `decode_pixel_data` and the block helpers of texture_utils. References are written here from
//! the format definitions (bit positions, Z-order/Morton interleave, Khronos ETC1 rules).
use crate::util::*;
use mila::verif_hooks::{texture_decoder as td, texture_utils as tu};
use mila::ColorFormat;

/// `c` is within one quantisation step of the linear expansion of the `bits`-wide value `v`.
fn within_step(c: u8, v: u32, bits: u32) -> bool {
    let max = (1u32 << bits) - 1;
    let lhs = (c as u32) * max;
    let rhs = v * 255;
    let diff = if lhs > rhs { lhs - rhs } else { rhs - lhs };
    diff <= 255
}

fn field(value: u32, shift: u32, bits: u32) -> u32 {
    (value >> shift) & ((1u32 << bits) - 1)
}

// @tier quick
// @timeout 300
// @bounds every 32-bit value for RGBA8, every 16-bit value for RGBA5551/RGB565/RGBA4/LA8, every 8-bit value for L8/A8 (format chosen by the solver)
// @claims decode_color: 8-bit channels are copied exactly from their bit positions, narrower channels are within one quantisation step of the linear expansion (endpoints exact), formats without alpha are opaque; no overflow in any profile
#[kani::proof]
#[kani::unwind(6)]
fn c19_decode_color() {
    let format: u32 = kani::any();
    kani::assume(format == 0 || format == 2 || format == 3 || format == 4 || format == 5 || format == 7 || format == 8);
    let value: u32 = kani::any();
    if format >= 2 && format <= 5 {
        kani::assume(value <= 0xFFFF);
    }
    if format >= 6 {
        kani::assume(value <= 0xFF);
    }
    let c = td::decode_color(value, format);
    assert!(c.len() == 4, "C19: a decoded colour has four channels");
    let (r, g, b, a) = (c[0], c[1], c[2], c[3]);
    match format {
        0 => {
            assert!(r as u32 == field(value, 24, 8) && g as u32 == field(value, 16, 8) && b as u32 == field(value, 8, 8) && a as u32 == field(value, 0, 8), "C19: RGBA8 channels must be copied bit-exactly");
        }
        2 => {
            assert!(within_step(r, field(value, 11, 5), 5) && within_step(g, field(value, 6, 5), 5) && within_step(b, field(value, 1, 5), 5), "C19: RGBA5551 colour channel not within one step of the linear expansion");
            assert!(a == if value & 1 == 1 { 255 } else { 0 }, "C19: RGBA5551 alpha bit");
            if field(value, 11, 5) == 31 { assert!(r == 255, "C19: 5-bit maximum must expand to 255"); }
            if field(value, 11, 5) == 0 { assert!(r == 0, "C19: 5-bit zero must expand to 0"); }
        }
        3 => {
            assert!(within_step(r, field(value, 11, 5), 5) && within_step(g, field(value, 5, 6), 6) && within_step(b, field(value, 0, 5), 5), "C19: RGB565 channel not within one step of the linear expansion");
            assert!(a == 255, "C19: RGB565 is opaque");
            if field(value, 0, 5) == 31 { assert!(b == 255, "C19: 5-bit maximum must expand to 255"); }
        }
        4 => {
            assert!(within_step(r, field(value, 12, 4), 4) && within_step(g, field(value, 8, 4), 4) && within_step(b, field(value, 4, 4), 4) && within_step(a, field(value, 0, 4), 4), "C19: RGBA4 channel not within one step of the linear expansion");
            if field(value, 0, 4) == 15 { assert!(a == 255, "C19: 4-bit maximum must expand to 255"); }
            if field(value, 12, 4) == 0 { assert!(r == 0, "C19: 4-bit zero must expand to 0"); }
        }
        5 => {
            let l = field(value, 8, 8) as u8;
            assert!(r == l && g == l && b == l && a as u32 == field(value, 0, 8), "C19: LA8 luminance/alpha must be copied bit-exactly");
        }
        7 => {
            assert!(r as u32 == value && g == r && b == r && a == 255, "C19: L8 luminance must be copied bit-exactly and be opaque");
        }
        _ => {
            assert!(a as u32 == value, "C19: A8 alpha must be copied bit-exactly");
        }
    }
    kani::cover!(format == 3 && value == 0xFFFF);
    kani::cover!(format == 0 && value == 0x01020304);
    std::mem::forget(c);
}

// @tier quick
// @timeout 300
// @bounds all 65536 RGB5A3 values, through the public ColorFormat::RGB5A3.decode (big-endian byte pair)
// @claims RGB5A3: opaque 5-5-5 when the top bit is set, else 3-bit alpha with 4-4-4 colour; every channel within one quantisation step of the linear expansion; no overflow in any profile
#[kani::proof]
#[kani::unwind(6)]
fn c19_rgb5a3() {
    let value: u16 = kani::any();
    let bytes = value.to_be_bytes();
    let out = keep(ColorFormat::RGB5A3.decode(&bytes)).unwrap();
    assert!(out.len() == 4, "C19: one RGB5A3 value decodes to one RGBA pixel");
    let v = value as u32;
    if v & 0x8000 != 0 {
        assert!(within_step(out[0], field(v, 10, 5), 5) && within_step(out[1], field(v, 5, 5), 5) && within_step(out[2], field(v, 0, 5), 5), "C19: RGB5A3 (opaque form) colour channel not within one step of the linear expansion");
        assert!(out[3] == 255, "C19: RGB5A3 opaque form must have alpha 255");
    } else {
        assert!(within_step(out[0], field(v, 8, 4), 4) && within_step(out[1], field(v, 4, 4), 4) && within_step(out[2], field(v, 0, 4), 4), "C19: RGB5A3 (alpha form) colour channel not within one step of the linear expansion");
        assert!(within_step(out[3], field(v, 12, 3), 3), "C19: RGB5A3 3-bit alpha not within one step of the linear expansion");
    }
    kani::cover!(value == 0xFFFF);
    kani::cover!(value == 0x7123);
    std::mem::forget(out);
}

// @tier quick
// @timeout 300
// @bounds palette of 0..=4 RGBA entries with symbolic bytes, one or two 8-bit indices (symbolic)
// @claims CI8 palette lookup: each pixel is exactly the palette entry it indexes; an index beyond the palette is an error, never a panic
#[kani::proof]
#[kani::unwind(10)]
fn c19_palette_lookup() {
    let palette: [u8; 16] = kani::any();
    let sel: u8 = kani::any();
    let i0: u8 = kani::any();
    let i1: u8 = kani::any();
    // palette length is fixed per arm so that slices have concrete lengths
    if sel == 0 { check_palette(&palette[..0], i0, i1); }
    if sel == 1 { check_palette(&palette[..4], i0, i1); }
    if sel == 2 { check_palette(&palette[..12], i0, i1); }
    if sel == 3 { check_palette(&palette[..16], i0, i1); }
    if sel == 4 {
        assert!(keep(ColorFormat::CI8.decode_indexed(&[i0], &palette[..6])).is_none(), "C19: a palette that is not a whole number of RGBA entries must be rejected");
    }
    kani::cover!(sel == 3 && i0 == 3 && i1 == 0);
}

fn check_palette(palette: &[u8], i0: u8, i1: u8) {
    let n = palette.len() / 4;
    let r = keep(ColorFormat::CI8.decode_indexed(&[i0, i1], palette));
    let ok = (i0 as usize) < n && (i1 as usize) < n;
    assert!(r.is_some() == ok, "C19: palette lookup must succeed exactly when every index is inside the palette");
    if let Some(px) = r {
        assert!(px.len() == 8, "C19: two indices decode to two RGBA pixels");
        for c in 0..4 {
            assert!(px[c] == palette[i0 as usize * 4 + c], "C19: palette pixel is not the indexed entry");
            assert!(px[4 + c] == palette[i1 as usize * 4 + c], "C19: second palette pixel is not the indexed entry");
        }
        std::mem::forget(px);
    }
}

/// Morton (Z-order) de-interleave of a 6-bit index: x from the even bits, y from the odd bits.
fn morton(i: usize) -> (usize, usize) {
    let x = (i & 1) | ((i >> 1) & 2) | ((i >> 2) & 4);
    let y = ((i >> 1) & 1) | ((i >> 2) & 2) | ((i >> 3) & 4);
    (x, y)
}

// @tier quick
// @timeout 600
// @bounds 8x8 L8 texture, all 64 payload bytes symbolic
// @claims tile layout: the pixel at (x, y) of an 8x8 tile is decode_color of the payload element at its Z-order (Morton) index
#[kani::proof]
#[kani::unwind(66)]
fn c19_tile_order_l8() {
    let payload: [u8; 64] = kani::any();
    let out = keep(td::decode_pixel_data(&payload, 8, 8, 7)).unwrap();
    assert!(out.len() == 256, "C19: 8x8 texture decodes to 64 RGBA pixels");
    let i: usize = kani::any();
    kani::assume(i < 64);
    let (x, y) = morton(i);
    let p = (y * 8 + x) * 4;
    assert!(out[p] == payload[i] && out[p + 1] == payload[i] && out[p + 2] == payload[i] && out[p + 3] == 255, "C19: pixel (x,y) does not come from its Z-order position in the tile");
    kani::cover!(i == 37);
    std::mem::forget(out);
}

// @tier thorough
// @timeout 2400
// @bounds 16x8 RGBA5551 texture (two tiles), payload element k holds the 16-bit value k (distinct per position), the probed element index symbolic
// @claims tile layout across tiles and for 16-bit elements: element k = tile*64 + Morton index lands on pixel (tile_x*8 + x, y), little-endian element order
#[kani::proof]
#[kani::unwind(130)]
fn c19_tile_order_16bit_two_tiles() {
    let mut payload = [0u8; 256];
    for k in 0..128 {
        // value k<<1 | 1 : 5-5-5 colour bits distinguish positions, alpha bit set
        let v: u16 = ((k as u16) << 1) | 1;
        payload[2 * k] = v as u8;
        payload[2 * k + 1] = (v >> 8) as u8;
    }
    let out = keep(td::decode_pixel_data(&payload, 16, 8, 2)).unwrap();
    assert!(out.len() == 16 * 8 * 4, "C19: 16x8 texture decodes to 128 RGBA pixels");
    let k: usize = kani::any();
    kani::assume(k < 128);
    let tile = k / 64;
    let (x, y) = morton(k % 64);
    let p = (y * 16 + tile * 8 + x) * 4;
    let v = ((k as u32) << 1) | 1;
    let want = td::decode_color(v, 2);
    assert!(out[p] == want[0] && out[p + 1] == want[1] && out[p + 2] == want[2] && out[p + 3] == 255, "C19: 16-bit element does not land on its Z-order position (tile walk / element order)");
    kani::cover!(k == 100);
    std::mem::forget(out);
    std::mem::forget(want);
}

// @tier quick
// @timeout 900
// @bounds 16x8 L8 texture (two tiles), payload byte k = k (concrete, distinct per position), probed element symbolic
// @claims tile layout across tiles: element k = tile*64 + Morton index lands on pixel (tile_x*8 + x, y)
#[kani::proof]
#[kani::unwind(130)]
fn c19_tile_order_two_tiles_l8() {
    let mut payload = [0u8; 128];
    for k in 0..128 {
        payload[k] = k as u8;
    }
    let out = keep(td::decode_pixel_data(&payload, 16, 8, 7)).unwrap();
    assert!(out.len() == 16 * 8 * 4, "C19: 16x8 texture decodes to 128 RGBA pixels");
    let k: usize = kani::any();
    kani::assume(k < 128);
    let tile = k / 64;
    let (x, y) = morton(k % 64);
    let p = (y * 16 + tile * 8 + x) * 4;
    assert!(out[p] == k as u8 && out[p + 3] == 255, "C19: element does not land on its Z-order position of its tile (tile walk)");
    kani::cover!(k == 100);
    std::mem::forget(out);
}

// ---------------------------------------------------------------------------------------------
// ETC1 reference (Khronos OES_compressed_ETC1_RGB8_texture), on the 64-bit block word
// ---------------------------------------------------------------------------------------------

const ETC_MOD: [[i32; 2]; 8] = [[2, 8], [5, 17], [9, 29], [13, 42], [18, 60], [24, 80], [33, 106], [47, 183]];

fn sext3(v: u64) -> i32 {
    if v >= 4 { v as i32 - 8 } else { v as i32 }
}

fn clamp8(v: i32) -> u8 {
    if v < 0 { 0 } else if v > 255 { 255 } else { v as u8 }
}

/// Valid differential block: every base + delta stays inside 0..=31 (what the ETC1 rules define).
fn etc1_defined(block: u64) -> bool {
    if (block >> 33) & 1 == 0 {
        return true;
    }
    let mut ok = true;
    for ch in 0..3u32 {
        let base = ((block >> (59 - 8 * ch)) & 0x1F) as i32;
        let delta = sext3((block >> (56 - 8 * ch)) & 7);
        if base + delta < 0 || base + delta > 31 {
            ok = false;
        }
    }
    ok
}

/// Reference colour of pixel (x, y) in a 4x4 block.
fn etc1_reference(block: u64, x: usize, y: usize) -> [u8; 3] {
    let diff = (block >> 33) & 1 == 1;
    let flip = (block >> 32) & 1 == 1;
    let second = if flip { y >= 2 } else { x >= 2 };
    let table = if second { (block >> 34) & 7 } else { (block >> 37) & 7 } as usize;
    let mut base = [0i32; 3];
    for ch in 0..3usize {
        let hi = 56 - 8 * ch as u32; // start of this channel's byte
        if diff {
            let b1 = ((block >> (hi + 3)) & 0x1F) as i32;
            let c = if second { b1 + sext3((block >> hi) & 7) } else { b1 };
            base[ch] = (c << 3) | (c >> 2);
        } else {
            let c = if second { (block >> hi) & 0xF } else { (block >> (hi + 4)) & 0xF } as i32;
            base[ch] = c * 17;
        }
    }
    let idx = x * 4 + y;
    let lsb = ((block >> idx) & 1) as usize;
    let msb = (block >> (16 + idx)) & 1;
    let m = if msb == 1 { -ETC_MOD[table][lsb] } else { ETC_MOD[table][lsb] };
    [clamp8(base[0] + m), clamp8(base[1] + m), clamp8(base[2] + m)]
}

fn etc1_check(block: u64, alphas: u64, with_alpha: bool) {
    let mut data = [0u8; 64];
    let ab = alphas.to_le_bytes();
    let bb = block.to_le_bytes();
    for i in 0..8 {
        if with_alpha {
            data[i] = ab[i];
            data[8 + i] = bb[i];
        } else {
            data[i] = bb[i];
        }
    }
    let n = if with_alpha { 64 } else { 32 };
    let out = keep(mila::decode(&data[..n], 4, 4, with_alpha)).unwrap();
    assert!(out.len() == 64, "C19: a 4x4 texture decodes to 16 RGBA pixels");
    let x: usize = kani::any();
    let y: usize = kani::any();
    kani::assume(x < 4 && y < 4);
    let want = etc1_reference(block, x, y);
    let p = (y * 4 + x) * 4;
    assert!(out[p] == want[0] && out[p + 1] == want[1] && out[p + 2] == want[2], "C19: ETC1 colour differs from the published decoding rules");
    let a = if with_alpha { (((alphas >> ((x * 4 + y) * 4)) & 0xF) * 17) as u8 } else { 255 };
    assert!(out[p + 3] == a, "C19: ETC1/ETC1A4 alpha differs from the 4-bit alpha plane expansion");
    std::mem::forget(out);
}

// @tier quick
// @timeout 1200
// @mem 12
// @bounds one fully symbolic ETC1 block in individual mode (all 2^63 such words), 4x4 texture, any pixel of the block
// @unwindset extend_with=70
// @claims ETC1 individual mode: base colours, modifier tables, flip, selector bits follow the Khronos rules exactly; opaque alpha; no overflow in any profile
#[kani::proof]
#[kani::unwind(18)]
fn c19_etc1_individual() {
    let block: u64 = kani::any();
    kani::assume((block >> 33) & 1 == 0);
    etc1_check(block, 0, false);
}

// @tier quick
// @timeout 1200
// @mem 12
// @bounds one fully symbolic ETC1 block in differential mode with every base+delta inside 0..=31 (negative deltas included), 4x4 texture, any pixel
// @unwindset extend_with=70
// @claims ETC1 differential mode: 5-bit bases, sign-extended 3-bit deltas, 5->8 bit expansion, tables/flip/selectors follow the Khronos rules exactly; identical in checked and unchecked builds (no arithmetic overflow)
#[kani::proof]
#[kani::unwind(18)]
fn c19_etc1_differential() {
    let block: u64 = kani::any();
    kani::assume((block >> 33) & 1 == 1);
    kani::assume(etc1_defined(block));
    etc1_check(block, 0, false);
}

// @tier quick
// @timeout 1200
// @mem 12
// @bounds ETC1A4: symbolic 64-bit alpha plane, colour block symbolic in the mode/flip/table/selector bits with fixed base colours, 4x4 texture, any pixel
// @unwindset extend_with=70
// @claims ETC1A4: alpha of pixel (x,y) is nibble x*4+y of the alpha word expanded by 17; colour block read from the second half of the 16-byte block
#[kani::proof]
#[kani::unwind(18)]
fn c19_etc1a4_alpha() {
    let alphas: u64 = kani::any();
    let low: u64 = kani::any();
    // symbolic selectors (bits 0..31), flip, tables; individual mode; fixed base colours
    let block = (low & 0x0000_00FD_FFFF_FFFF) | 0x8421_C300_0000_0000;
    etc1_check(block, alphas, true);
}

// @tier quick
// @timeout 600
// @bounds align: every value below 2^20 with increment in {0,1,4,8} (the block dimensions callers pass)
// @claims align rounds up to the next multiple of the increment and is the identity for increment <= 1
#[kani::proof]
#[kani::unwind(6)]
fn c19_align() {
    let v: usize = kani::any();
    kani::assume(v < (1 << 20));
    let sel: u8 = kani::any();
    kani::assume(sel < 4);
    let inc: usize = if sel == 0 { 0 } else if sel == 1 { 1 } else if sel == 2 { 4 } else { 8 };
    let al = tu::align(v, inc);
    if inc <= 1 {
        assert!(al == v, "C19: align with increment <= 1 is the identity");
    } else {
        assert!(al >= v && al - v < inc && al & (inc - 1) == 0, "C19: align must round up to the next multiple");
    }
    kani::cover!(sel == 3 && v == 9);
}

fn crop_check(seq: &[u8], w: usize, h: usize) {
    let cropped = tu::crop(seq, 16, w, h);
    assert!(cropped.len() == w * h, "C19: crop must return width x height bytes");
    let rr: usize = kani::any();
    let cc: usize = kani::any();
    kani::assume(rr < h && cc < w);
    assert!(cropped[rr * w + cc] == seq[rr * 16 + cc], "C19: crop must keep the top-left window");
    std::mem::forget(cropped);
}

// @tier quick
// @timeout 900
// @bounds block_to_sequential: 16x8 texture of 8x4 blocks with position-coded bytes, probed byte symbolic; crop of the 16-wide result to (5x3), (9x8), (16x8), (16x5: full-width rows, padding rows dropped) or (8x1), chosen by the solver
// @claims block_to_sequential moves byte (block b, row r, column c) to row b_row*4+r, column b_col*8+c; crop keeps the top-left width x height window
#[kani::proof]
#[kani::unwind(130)]
fn c19_block_helpers() {
    let mut data = [0u8; 128];
    for i in 0..128 {
        data[i] = i as u8;
    }
    let seq = keep(tu::block_to_sequential(&data, 16, 8, 8, 4)).unwrap();
    assert!(seq.len() == 128);
    let i: usize = kani::any();
    kani::assume(i < 128);
    let block = i / 32;
    let (brow, bcol) = (block / 2, block % 2);
    let (r, c) = ((i % 32) / 8, i % 8);
    assert!(seq[(brow * 4 + r) * 16 + bcol * 8 + c] == i as u8, "C19: block_to_sequential misplaced a byte of an 8x4 block");
    let sel: u8 = kani::any();
    if sel == 0 { crop_check(&seq, 5, 3); }
    if sel == 1 { crop_check(&seq, 9, 8); }
    if sel == 2 { crop_check(&seq, 16, 8); }
    if sel == 3 { crop_check(&seq, 16, 5); }
    if sel == 4 { crop_check(&seq, 8, 1); }
    kani::cover!(sel == 1);
    kani::cover!(sel == 3);
    std::mem::forget(seq);
}

// @tier quick
// @timeout 300
// @expect witness
// @bounds as c19_rgb5a3
// @claims vacuity witness for the C19 harnesses (must FAIL at its final assert)
#[kani::proof]
#[kani::unwind(6)]
fn c19_witness() {
    let value: u16 = kani::any();
    let out = keep(ColorFormat::RGB5A3.decode(&value.to_be_bytes())).unwrap();
    if out.len() == 4 && value == 0x8001 {
        assert!(false, "VACUITY-WITNESS");
    }
    std::mem::forget(out);
}
