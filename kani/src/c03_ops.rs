//! C03 — composition layer: one allocate / deallocate / truncate (or a rejected request) applied
//! to a toy archive that carries every kind of annotation, compared cell by cell with a reference
//! model of the property statement. Structure (addresses, amounts, flag) is concrete per harness
//! arm — `Vec::splice` / `drain` at a symbolic position are out of CBMC's reach — while the raw
//! bytes are symbolic. The full-width address arithmetic is decided in c03_kernels.rs.
use crate::util::*;
use mila::verif_hooks::bin_archive::{pending_c_string_cells, pending_c_string_count};
use mila::{BinArchive, BinArchiveWriter, Endian};

const SZ: usize = 12;

/// Toy state: 12 symbolic bytes; pointer cell 0 -> 8; string "S" on cell 4; label "L" at 8;
/// label "E" at the end address 12; pending c-string "C" on cell 8.
fn toy() -> (BinArchive, [u8; SZ]) {
    let bytes: [u8; SZ] = kani::any();
    let mut a = BinArchive::new(Endian::Little);
    a.allocate_at_end(SZ);
    keep(a.write_bytes(0, &bytes)).unwrap();
    keep(a.write_pointer(0, Some(8))).unwrap();
    keep(a.write_string(4, Some("S"))).unwrap();
    keep(a.write_label(8, "L")).unwrap();
    keep(a.write_label(SZ, "E")).unwrap();
    keep(a.write_c_string(8, "C".to_string())).unwrap();
    (a, bytes)
}

/// Everything the property talks about, observed through the API (plus the c-string hook).
struct View {
    size: usize,
    string_cell: Option<usize>,
    strings: usize,
    pointer: Option<(usize, usize)>,
    pointers: usize,
    label_l: Option<usize>,
    label_e: Option<usize>,
    labels: usize,
    cstring: Option<usize>,
    cstrings: usize,
}

fn view(a: &BinArchive) -> View {
    let mut v = View { size: a.size(), string_cell: None, strings: 0, pointer: None, pointers: 0, label_l: None, label_e: None, labels: 0, cstring: None, cstrings: 0 };
    for cell in 0..6 {
        let addr = cell * 4;
        if addr + 4 <= v.size {
            if let Some(s) = keep(a.read_string(addr)).unwrap() {
                v.strings += 1;
                if s == "S" {
                    v.string_cell = Some(addr);
                }
                std::mem::forget(s);
            }
            if let Some(t) = keep(a.read_pointer(addr)).unwrap() {
                v.pointers += 1;
                v.pointer = Some((addr, t));
            }
        }
    }
    v.label_l = a.find_label_address("L");
    v.label_e = a.find_label_address("E");
    v.labels = (if v.label_l.is_some() { 1 } else { 0 }) + (if v.label_e.is_some() { 1 } else { 0 });
    let cells = pending_c_string_cells(a, "C");
    v.cstrings = pending_c_string_count(a);
    if cells.len() == 1 {
        v.cstring = Some(cells[0]);
    }
    std::mem::forget(cells);
    v
}

fn moved(x: usize, a: usize, n: usize, inclusive: bool) -> usize {
    if x > a || (inclusive && x == a) { x + n } else { x }
}

fn check_allocate(addr: usize, n: usize, ge: bool, via_writer: bool) {
    let (mut a, old) = toy();
    if via_writer {
        let mut w = BinArchiveWriter::new(&mut a, addr);
        keep(w.allocate(n, ge)).unwrap();
    } else {
        keep(a.allocate(addr, n, ge)).unwrap();
    }
    let v = view(&a);
    assert!(v.size == SZ + n, "C03: allocate must grow the data by exactly the requested amount");
    for i in 0..(SZ + 8) {
        if i < SZ + n {
            let got = keep(a.read_u8(i)).unwrap();
            let want = if i < addr { old[i] } else if i < addr + n { 0 } else { old[i - n] };
            assert!(got == want, "C03: allocate must insert zero bytes at the address and shift the rest");
        }
    }
    assert!(v.strings == 1 && v.string_cell == Some(moved(4, addr, n, true)), "C03: allocate must shift a string at or after the address (and keep the others)");
    assert!(v.pointers == 1 && v.pointer == Some((moved(0, addr, n, true), moved(8, addr, n, ge))), "C03: allocate must shift a pointer cell at or after the address and a target after it (at it when inclusive)");
    assert!(v.labels == 2 && v.label_l == Some(moved(8, addr, n, ge)) && v.label_e == Some(moved(SZ, addr, n, ge)), "C03: allocate must shift labels after the address (at it when inclusive), losing and inventing none");
    assert!(v.cstrings == 1 && v.cstring == Some(moved(8, addr, n, true)), "C03: allocate must shift a pending c-string located at or after the address");
    std::mem::forget(a);
}

// @tier quick
// @timeout 900
// @mem 12
// @bounds toy archive (12 symbolic bytes, pointer 0->8, string on 4, labels at 8 and at the end, pending c-string on 8); allocate (address, amount, inclusive) in {(0,4,F), (4,4,T), (8,4,F), (8,4,T)} (solver-chosen arm)
// @claims allocate: data grows by n zero bytes at the address; strings, pointer cells and pending c-strings at or after it move by n; labels and pointer targets after it (at it when inclusive) move by n; nothing lost or invented
#[kani::proof]
#[kani::unwind(24)]
fn c03_allocate_a() {
    let sel: u8 = kani::any();
    kani::assume(sel < 4);
    if sel == 0 { check_allocate(0, 4, false, false); }
    if sel == 1 { check_allocate(4, 4, true, false); }
    if sel == 2 { check_allocate(8, 4, false, false); }
    if sel == 3 { check_allocate(8, 4, true, false); }
    kani::cover!(sel == 3);
}

// @tier quick
// @timeout 900
// @mem 12
// @bounds same toy archive; allocate (address, amount, inclusive) in {(4,8,F), (12,4,F), (12,4,T)}, and BinArchiveWriter::allocate at cursor 8 (insert) and at cursor 12 (append) (solver-chosen arm)
// @claims as c03_allocate_a for a two-cell insert and for the end address (appending is always accepted; an end label moves only with inclusive shifting); the writer dispatches to insert or append by its cursor
#[kani::proof]
#[kani::unwind(24)]
fn c03_allocate_b() {
    let sel: u8 = kani::any();
    kani::assume(sel < 5);
    if sel == 0 { check_allocate(4, 8, false, false); }
    if sel == 1 { check_allocate(SZ, 4, false, false); }
    if sel == 2 { check_allocate(SZ, 4, true, false); }
    if sel == 3 { check_allocate(8, 4, true, true); }
    if sel == 4 {
        // writer at the end: allocate_at_end, nothing moves whatever the flag says
        let (mut a, old) = toy();
        {
            let mut w = BinArchiveWriter::new(&mut a, SZ);
            keep(w.allocate(4, true)).unwrap();
        }
        let v = view(&a);
        assert!(v.size == SZ + 4, "C03: appending through the writer must grow the data");
        assert!(v.label_e == Some(SZ) && v.label_l == Some(8) && v.string_cell == Some(4) && v.pointer == Some((0, 8)) && v.cstring == Some(8), "C03: appending at the end must not move any annotation");
        for i in 0..SZ {
            assert!(keep(a.read_u8(i)).unwrap() == old[i], "C03: appending at the end must not change existing bytes");
        }
        std::mem::forget(a);
    }
    kani::cover!(sel == 4);
}

fn back(x: usize, a: usize, n: usize, inclusive: bool) -> usize {
    if x > a || (inclusive && x == a) { x - n } else { x }
}

fn check_deallocate(addr: usize, n: usize, ge: bool) {
    let (mut a, old) = toy();
    keep(a.deallocate(addr, n, ge)).unwrap();
    let v = view(&a);
    let inside = |x: usize| x >= addr && x < addr + n;
    assert!(v.size == SZ - n, "C03: deallocate must shrink the data by exactly the removed range");
    for i in 0..SZ {
        if i < SZ - n {
            let want = if i < addr { old[i] } else { old[i + n] };
            assert!(keep(a.read_u8(i)).unwrap() == want, "C03: deallocate must delete exactly the bytes of the range and shift the rest back");
        }
    }
    if inside(4) {
        assert!(v.strings == 0, "C03: deallocate must delete a string inside the removed range");
    } else {
        assert!(v.strings == 1 && v.string_cell == Some(back(4, addr, n, true)), "C03: deallocate must keep a string outside the range and shift it back");
    }
    if inside(0) || inside(8) {
        assert!(v.pointers == 0, "C03: deallocate must delete a pointer located in or pointing into the removed range");
    } else {
        assert!(v.pointers == 1 && v.pointer == Some((back(0, addr, n, true), back(8, addr, n, ge))), "C03: deallocate must keep and relocate a pointer outside the range");
    }
    if inside(8) {
        assert!(v.label_l.is_none(), "C03: deallocate must delete a label inside the removed range");
        assert!(v.cstrings == 0, "C03: deallocate must delete a pending c-string inside the removed range");
    } else {
        assert!(v.label_l == Some(back(8, addr, n, ge)), "C03: deallocate must keep a label outside the range and shift it back");
        assert!(v.cstrings == 1 && v.cstring == Some(back(8, addr, n, true)), "C03: deallocate must keep a pending c-string outside the range and shift it back");
    }
    assert!(v.label_e == Some(SZ - n), "C03: the end label must follow the end of the data");
    std::mem::forget(a);
}

// @tier quick
// @timeout 900
// @mem 12
// @bounds same toy archive; deallocate (address, amount, inclusive) in {(0,4,F), (4,4,F), (4,8,T), (8,4,F), (8,4,T)} (solver-chosen arm)
// @claims deallocate: exactly the bytes and annotations inside the range and the pointers pointing into it are deleted (pending c-strings included); everything after moves back by n; nothing else lost or invented
#[kani::proof]
#[kani::unwind(24)]
fn c03_deallocate() {
    let sel: u8 = kani::any();
    kani::assume(sel < 5);
    if sel == 0 { check_deallocate(0, 4, false); }
    if sel == 1 { check_deallocate(4, 4, false); }
    if sel == 2 { check_deallocate(4, 8, true); }
    if sel == 3 { check_deallocate(8, 4, false); }
    if sel == 4 { check_deallocate(8, 4, true); }
    kani::cover!(sel == 2);
}

/// Deallocate with annotations on addresses that are not multiples of 4 (labels and strings may
/// sit on any address): label "U" at 9, string "T" on the unaligned address `t_addr` (chosen per
/// arm so that its four bytes are either all kept or start inside the removed range).
fn check_deallocate_unaligned(addr: usize, n: usize, ge: bool, t_addr: usize) {
    let (mut a, _old) = toy();
    keep(a.write_label(9, "U")).unwrap();
    keep(a.write_string(t_addr, Some("T"))).unwrap();
    keep(a.deallocate(addr, n, ge)).unwrap();
    let inside = |x: usize| x >= addr && x < addr + n;
    let u = a.find_label_address("U");
    if inside(9) {
        assert!(u.is_none(), "C03: deallocate must delete a label on an unaligned address inside the removed range");
    } else {
        assert!(u == Some(back(9, addr, n, ge)), "C03: deallocate must keep an unaligned label outside the range and shift it back");
    }
    let mut t_at: Option<usize> = None;
    let mut t_count = 0;
    for x in 0..SZ {
        if x + 4 <= SZ - n {
            if let Some(s) = keep(a.read_string(x)).unwrap() {
                if s == "T" {
                    t_at = Some(x);
                    t_count += 1;
                }
                std::mem::forget(s);
            }
        }
    }
    if inside(t_addr) {
        assert!(t_count == 0, "C03: deallocate must delete a string on an unaligned address inside the removed range");
    } else {
        assert!(t_count == 1 && t_at == Some(back(t_addr, addr, n, true)), "C03: deallocate must keep an unaligned string outside the range and shift it back");
    }
    std::mem::forget(a);
}

// @tier quick
// @timeout 1500
// @mem 12
// @bounds toy archive plus label "U" at 9 and string "T" on address 2 (first arm) or 6; deallocate (address, amount, inclusive) in {(8,4,F), (4,4,F), (0,4,T)} (solver-chosen arm)
// @claims deallocate deletes / shifts labels and strings that sit on addresses which are not multiples of 4 exactly like aligned ones
#[kani::proof]
#[kani::unwind(24)]
fn c03_deallocate_unaligned() {
    let sel: u8 = kani::any();
    kani::assume(sel < 3);
    if sel == 0 { check_deallocate_unaligned(8, 4, false, 2); }
    if sel == 1 { check_deallocate_unaligned(4, 4, false, 6); }
    if sel == 2 { check_deallocate_unaligned(0, 4, true, 6); }
    kani::cover!(sel == 0);
    kani::cover!(sel == 1);
}

fn check_truncate(cut: usize) {
    let (mut a, old) = toy();
    keep(a.write_label(9, "U")).unwrap(); // a label on an unaligned address beyond the cut
    keep(a.truncate(cut)).unwrap();
    let v = view(&a);
    assert!(v.size == cut, "C03: truncate must remove every byte at or beyond the cut");
    for i in 0..SZ {
        if i < cut {
            assert!(keep(a.read_u8(i)).unwrap() == old[i], "C03: truncate must keep the bytes before the cut");
        }
    }
    assert!(v.label_e.is_none(), "C03: truncate must remove a label beyond the cut (the old end label included)");
    assert!(a.find_label_address("U").is_none(), "C03: truncate must remove labels on unaligned addresses beyond the cut");
    if cut <= 8 {
        assert!(v.label_l.is_none(), "C03: truncate must remove a label at or beyond the cut");
        assert!(v.cstrings == 0, "C03: truncate must remove a pending c-string at or beyond the cut");
    } else {
        assert!(v.label_l == Some(8) && v.cstring == Some(8), "C03: truncate must keep annotations before the cut");
    }
    if cut <= 4 {
        assert!(v.strings == 0, "C03: truncate must remove a string at or beyond the cut");
    } else {
        assert!(v.string_cell == Some(4), "C03: truncate must keep a string before the cut");
    }
    assert!(v.pointers == 1 && v.pointer.map(|p| p.0) == Some(0), "C03: truncate must keep a pointer cell before the cut");
    std::mem::forget(a);
}

// @tier quick
// @timeout 1500
// @mem 12
// @bounds same toy archive plus a label on the unaligned address 9; truncate at the cell boundary 8
// @claims truncate at a cell boundary removes every byte and every annotation at or beyond the cut (end label, unaligned labels and pending c-strings included) and nothing before it
#[kani::proof]
#[kani::unwind(24)]
fn c03_truncate_at_8() {
    check_truncate(8);
}

// @tier quick
// @timeout 1500
// @mem 12
// @bounds same toy archive plus a label on the unaligned address 9; truncate at the cell boundary 4
// @claims as c03_truncate_at_8 for a cut that also removes the string cell
#[kani::proof]
#[kani::unwind(24)]
fn c03_truncate_at_4() {
    check_truncate(4);
}

// @tier quick
// @timeout 1500
// @mem 12
// @bounds same toy archive; truncate at the size (12) or beyond it (16) (solver-chosen)
// @claims truncating at or beyond the size changes nothing
#[kani::proof]
#[kani::unwind(24)]
fn c03_truncate_noop() {
    let beyond: bool = kani::any();
    let (mut a, old) = toy();
    // literal cut per arm: a cut chosen by `beyond` would be symbolic inside truncate
    if beyond {
        keep(a.truncate(SZ + 4)).unwrap();
    } else {
        keep(a.truncate(SZ)).unwrap();
    }
    let v = view(&a);
    assert!(v.size == SZ && v.string_cell == Some(4) && v.pointer == Some((0, 8)) && v.label_l == Some(8) && v.cstring == Some(8), "C03: truncating at or beyond the size must change nothing");
    for i in 0..SZ {
        assert!(keep(a.read_u8(i)).unwrap() == old[i], "C03: truncating at or beyond the size must not change bytes");
    }
    kani::cover!(beyond);
    std::mem::forget(a);
}

// @tier quick
// @timeout 900
// @mem 12
// @bounds same toy archive; rejected requests: allocate (2,4) (4,3) (16,4); deallocate (2,4) (4,2) (8,8) (12,4) (4,usize::MAX-3) (solver-chosen arm), both values of the inclusive flag
// @claims misaligned or out-of-range insert and remove requests are errors and leave bytes and every annotation unchanged; no panic for amounts near usize::MAX
#[kani::proof]
#[kani::unwind(24)]
fn c03_rejected_requests() {
    let sel: u8 = kani::any();
    kani::assume(sel < 8);
    let ge: bool = kani::any();
    let (mut a, old) = toy();
    let r = match sel {
        0 => keep(a.allocate(2, 4, ge)),
        1 => keep(a.allocate(4, 3, ge)),
        2 => keep(a.allocate(16, 4, ge)),
        3 => keep(a.deallocate(2, 4, ge)),
        4 => keep(a.deallocate(4, 2, ge)),
        5 => keep(a.deallocate(8, 8, ge)),
        6 => keep(a.deallocate(SZ, 4, ge)),
        _ => keep(a.deallocate(4, usize::MAX - 3, ge)),
    };
    assert!(r.is_none(), "C03: a misaligned or out-of-range request must be rejected");
    let v = view(&a);
    assert!(v.size == SZ && v.strings == 1 && v.string_cell == Some(4) && v.pointers == 1 && v.pointer == Some((0, 8)) && v.label_l == Some(8) && v.label_e == Some(SZ) && v.cstring == Some(8), "C03: a rejected request must leave every annotation unchanged");
    for i in 0..SZ {
        assert!(keep(a.read_u8(i)).unwrap() == old[i], "C03: a rejected request must leave the bytes unchanged");
    }
    kani::cover!(sel == 7);
    std::mem::forget(a);
}

// @tier quick
// @timeout 300
// @expect witness
// @bounds allocate(8,4,true) on the toy archive
// @claims vacuity witness for the C03 composition harnesses (must FAIL at its final assert)
#[kani::proof]
#[kani::unwind(24)]
fn c03_ops_witness() {
    let (mut a, _old) = toy();
    keep(a.allocate(8, 4, true)).unwrap();
    if a.size() == SZ + 4 {
        assert!(false, "VACUITY-WITNESS");
    }
    std::mem::forget(a);
}
