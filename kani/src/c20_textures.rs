//! C20 — texture containers yield the packed textures and fail cleanly when truncated.
//!
//! One 8x8 L8 texture (64-byte payload, position-coded bytes) is packed into hand-laid-out CTPK,
//! BCH and CGFX images (offsets chosen so that tables, name and payload are not adjacent). The
//! readers must return one texture with the stored name and dimensions whose pixels are the
//! decoding of that payload; wrong magic numbers are errors; strict prefixes never panic and are
//! errors whenever the cut removes payload bytes.
use crate::stubs::*;
use crate::util::*;
use mila::Texture;

fn put32(img: &mut [u8], at: usize, v: u32) {
    let b = v.to_le_bytes();
    for k in 0..4 {
        img[at + k] = b[k];
    }
}

fn put16(img: &mut [u8], at: usize, v: u16) {
    img[at] = v as u8;
    img[at + 1] = (v >> 8) as u8;
}

fn payload_byte(i: usize) -> u8 {
    (i * 3 + 1) as u8
}

fn put_payload(img: &mut [u8], at: usize) {
    for i in 0..64 {
        img[at + i] = payload_byte(i);
    }
}

fn put_name(img: &mut [u8], at: usize) {
    img[at] = b't';
    img[at + 1] = b'e';
    img[at + 2] = b'x';
    img[at + 3] = 0;
}

fn morton(i: usize) -> (usize, usize) {
    let x = (i & 1) | ((i >> 1) & 2) | ((i >> 2) & 4);
    let y = ((i >> 1) & 1) | ((i >> 2) & 2) | ((i >> 3) & 4);
    (x, y)
}

fn check_texture(t: &Vec<Texture>, named: bool) {
    assert!(t.len() == 1, "C20: one packed texture, one texture returned");
    let tex = &t[0];
    assert!(tex.width == 8 && tex.height == 8, "C20: dimensions must be the stored ones");
    if named {
        assert!(tex.filename == "tex", "C20: name must be the stored one");
    }
    assert!(tex.pixel_data.len() == 256, "C20: 8x8 texture decodes to 64 RGBA pixels");
    let i: usize = kani::any();
    kani::assume(i < 64);
    let (x, y) = morton(i);
    let p = (y * 8 + x) * 4;
    let v = payload_byte(i);
    assert!(tex.pixel_data[p] == v && tex.pixel_data[p + 1] == v && tex.pixel_data[p + 2] == v && tex.pixel_data[p + 3] == 255, "C20: pixel data must be the decoding of the texture's own payload");
}

const CTPK_LEN: usize = 0xC0;

fn ctpk_image() -> [u8; CTPK_LEN] {
    let mut img = [0u8; CTPK_LEN];
    img[0] = b'C'; img[1] = b'T'; img[2] = b'P'; img[3] = b'K';
    put16(&mut img, 4, 1);
    put16(&mut img, 6, 1); // texture count
    put32(&mut img, 8, 0x60); // texture section
    put32(&mut img, 12, 0x60);
    // texture info record at 0x20
    put32(&mut img, 0x20, 0x40); // file name pointer
    put32(&mut img, 0x24, 64);
    put32(&mut img, 0x28, 0x20); // payload offset inside the texture section (non-zero on purpose)
    put32(&mut img, 0x2C, 7); // L8
    put16(&mut img, 0x30, 8);
    put16(&mut img, 0x32, 8);
    img[0x34] = 1;
    put_name(&mut img, 0x40);
    put_payload(&mut img, 0x80);
    img
}

const BCH_LEN: usize = 0x110;

fn bch_image() -> [u8; BCH_LEN] {
    let mut img = [0u8; BCH_LEN];
    put32(&mut img, 0, 0x0048_4342); // "BCH\0"
    put32(&mut img, 8, 0x40); // contents
    put32(&mut img, 12, 0x9C); // strings (name at +4)
    put32(&mut img, 16, 0xA8); // commands (block at +8)
    put32(&mut img, 20, 0xC0); // raw data (payload at +0x10)
    // content table (at contents + 0x24): texture pointer table offset / entries
    put32(&mut img, 0x64, 0x30);
    put32(&mut img, 0x68, 1);
    put32(&mut img, 0x70, 0x38); // pointer table entry -> texture header at contents + 0x38
    put32(&mut img, 0x78, 8); // commands offset (relative to the commands section)
    put32(&mut img, 0x94, 4); // name offset (relative to the strings section)
    put_name(&mut img, 0xA0);
    put16(&mut img, 0xB0, 8); // height
    put16(&mut img, 0xB2, 8); // width
    put32(&mut img, 0xC0, 0x10); // data offset (relative to the raw data section)
    put32(&mut img, 0xC8, 7); // L8
    put_payload(&mut img, 0xD0);
    img
}

const CGFX_LEN: usize = 0x170;

fn cgfx_image() -> [u8; CGFX_LEN] {
    let mut img = [0u8; CGFX_LEN];
    put32(&mut img, 0, 0x5846_4743); // "CGFX"
    put32(&mut img, 12, CGFX_LEN as u32);
    put32(&mut img, 16, 1);
    put32(&mut img, 0x14, 0x4154_4144); // "DATA"
    // DATA entry 1 (textures): count, self-relative offset to the DICT at 0xA0
    put32(&mut img, 0x24, 1);
    put32(&mut img, 0x28, 0xA0 - 0x28);
    put32(&mut img, 0xA0, 0x5443_4944); // "DICT"
    put32(&mut img, 0xA8, 1); // entry count
    put32(&mut img, 0xC8, 0xD0 - 0xC8); // object offset -> TXOB at 0xD0
    put32(&mut img, 0xD4, 0x424F_5854); // "TXOB"
    put32(&mut img, 0xDC, 0x120 - 0xDC); // name offset
    put32(&mut img, 0xE8, 8); // height
    put32(&mut img, 0xEC, 8); // width
    put32(&mut img, 0xF8, 1); // mipmap levels
    put32(&mut img, 0x104, 7); // L8
    put32(&mut img, 0x114, 64); // payload size
    put32(&mut img, 0x118, 0x130 - 0x118); // payload offset
    put_name(&mut img, 0x120);
    put_payload(&mut img, 0x130);
    img
}

// @tier quick
// @timeout 1800
// @mem 12
// @bounds one 8x8 L8 texture named "tex" in a hand-laid-out CTPK image (tables, name and payload non-adjacent); probed pixel symbolic
// @cbmc --max-field-sensitivity-array-size 512
// @unwindset memchr=400
// @claims CTPK: one texture with the stored name and dimensions; pixel data equal to the decoding of its own payload
// @assume encoding_rs decode replaced by the 7-bit model and core::slice::memchr::memchr by a plain loop (stubs.rs): ASCII names
#[kani::proof]
#[kani::unwind(70)]
#[kani::stub(encoding_rs::Encoding::decode, crate::stubs::decode_ascii_model)]
#[kani::stub(core::slice::memchr::memchr, crate::stubs::memchr_model)]
fn c20_ctpk_single_texture() {
    let img = ctpk_image();
    let t = keep(mila::ctpk::read(&img)).unwrap();
    check_texture(&t, true);
    std::mem::forget(t);
}

// @tier quick
// @timeout 1800
// @mem 12
// @bounds one 8x8 L8 texture named "tex" in a hand-laid-out BCH image; probed pixel symbolic
// @cbmc --max-field-sensitivity-array-size 512
// @unwindset memchr=400
// @claims BCH: one texture with the stored name and dimensions; pixel data equal to the decoding of its own payload
// @assume encoding_rs decode replaced by the 7-bit model (stubs.rs)
#[kani::proof]
#[kani::unwind(70)]
#[kani::stub(encoding_rs::Encoding::decode, crate::stubs::decode_ascii_model)]
#[kani::stub(core::slice::memchr::memchr, crate::stubs::memchr_model)]
fn c20_bch_single_texture() {
    let img = bch_image();
    let t = keep(mila::bch::read(&img)).unwrap();
    check_texture(&t, true);
    std::mem::forget(t);
}

// @tier quick
// @timeout 1800
// @mem 12
// @bounds one 8x8 L8 texture named "tex" in a hand-laid-out CGFX image (DATA -> DICT -> TXOB chain with self-relative offsets); probed pixel symbolic
// @cbmc --max-field-sensitivity-array-size 512
// @unwindset memchr=400
// @claims CGFX: one texture with the stored name and dimensions; pixel data equal to the decoding of its own payload
// @assume encoding_rs decode replaced by the 7-bit model (stubs.rs)
#[kani::proof]
#[kani::unwind(70)]
#[kani::stub(encoding_rs::Encoding::decode, crate::stubs::decode_ascii_model)]
#[kani::stub(core::slice::memchr::memchr, crate::stubs::memchr_model)]
fn c20_cgfx_single_texture() {
    let img = cgfx_image();
    let t = keep(mila::cgfx::read(&img)).unwrap();
    check_texture(&t, true);
    std::mem::forget(t);
}

// @tier quick
// @timeout 1200
// @mem 12
// @bounds BCH and CGFX single-texture images whose magic number is replaced by 0, the expected value with its lowest / highest bit flipped, the byte-swapped expected value, or 0xFFFFFFFF (solver-chosen arm)
// @unwindset memchr=400
// @cbmc --max-field-sensitivity-array-size 512
// @claims BCH and CGFX input with a wrong magic number is rejected
// @assume encoding_rs decode replaced by the 7-bit model and core::slice::memchr::memchr by a plain loop (stubs.rs)
#[kani::proof]
#[kani::unwind(70)]
#[kani::stub(encoding_rs::Encoding::decode, crate::stubs::decode_ascii_model)]
#[kani::stub(core::slice::memchr::memchr, crate::stubs::memchr_model)]
fn c20_wrong_magic() {
    let sel: u8 = kani::any();
    kani::assume(sel < 10);
    // literal magic per arm (a magic computed from `sel` would be symbolic for the parser)
    if sel == 0 { wrong_bch(0); }
    if sel == 1 { wrong_bch(0x0048_4342 ^ 1); }
    if sel == 2 { wrong_bch(0x0048_4342 ^ 0x8000_0000); }
    if sel == 3 { wrong_bch(0x4243_4800); }
    if sel == 4 { wrong_bch(0xFFFF_FFFF); }
    if sel == 5 { wrong_cgfx(0); }
    if sel == 6 { wrong_cgfx(0x5846_4743 ^ 1); }
    if sel == 7 { wrong_cgfx(0x5846_4743 ^ 0x8000_0000); }
    if sel == 8 { wrong_cgfx(0x4347_4658); }
    if sel == 9 { wrong_cgfx(0xFFFF_FFFF); }
    kani::cover!(sel == 9);
}

fn wrong_bch(magic: u32) {
    let mut img = bch_image();
    put32(&mut img, 0, magic);
    assert!(keep(mila::bch::read(&img)).is_none(), "C20: BCH input with a wrong magic number must be rejected");
}

fn wrong_cgfx(magic: u32) {
    let mut img = cgfx_image();
    put32(&mut img, 0, magic);
    assert!(keep(mila::cgfx::read(&img)).is_none(), "C20: CGFX input with a wrong magic number must be rejected");
}

// @tier quick
// @timeout 1800
// @mem 16
// @bounds strict prefixes of the CTPK single-texture image cut at: empty, inside the header, inside the info record, inside the name, at the payload start, one byte before the end (solver-chosen arm)
// @unwindset memchr=400
// @cbmc --max-field-sensitivity-array-size 512
// @claims every such prefix is read without panicking and yields an error (each of these cuts removes part of the texture payload)
// @assume encoding_rs decode replaced by the 7-bit model and core::slice::memchr::memchr by a plain loop (stubs.rs)
#[kani::proof]
#[kani::unwind(70)]
#[kani::stub(encoding_rs::Encoding::decode, crate::stubs::decode_ascii_model)]
#[kani::stub(core::slice::memchr::memchr, crate::stubs::memchr_model)]
fn c20_ctpk_truncated_prefixes() {
    let sel: u8 = kani::any();
    kani::assume(sel < 6);
    let img = ctpk_image();
    let err = match sel {
        0 => keep(mila::ctpk::read(&img[..0])).is_none(),
        1 => keep(mila::ctpk::read(&img[..0x1F])).is_none(),
        2 => keep(mila::ctpk::read(&img[..0x3F])).is_none(),
        3 => keep(mila::ctpk::read(&img[..0x42])).is_none(),
        4 => keep(mila::ctpk::read(&img[..0x80])).is_none(),
        _ => keep(mila::ctpk::read(&img[..CTPK_LEN - 1])).is_none(),
    };
    assert!(err, "C20: a prefix that cuts into the texture payload must yield an error");
    kani::cover!(sel == 5);
}

// @tier offline
// @offline not registered: solver ran out of memory at 24 GB in the trial runs
// @timeout 1800
// @mem 40
// @bounds strict prefixes of the BCH single-texture image cut at: empty, inside the header, inside the content table, at the payload start (solver-chosen arm)
// @unwindset memchr=400
// @cbmc --max-field-sensitivity-array-size 512
// @claims every such prefix is read without panicking and yields an error (each of these cuts removes part of the texture payload)
// @assume encoding_rs decode replaced by the 7-bit model and core::slice::memchr::memchr by a plain loop (stubs.rs)
#[kani::proof]
#[kani::unwind(70)]
#[kani::stub(encoding_rs::Encoding::decode, crate::stubs::decode_ascii_model)]
#[kani::stub(core::slice::memchr::memchr, crate::stubs::memchr_model)]
fn c20_bch_truncated_prefixes() {
    let sel: u8 = kani::any();
    kani::assume(sel < 4);
    let img = bch_image();
    let err = match sel {
        0 => keep(mila::bch::read(&img[..0])).is_none(),
        1 => keep(mila::bch::read(&img[..0x37])).is_none(),
        2 => keep(mila::bch::read(&img[..0x66])).is_none(),
        _ => keep(mila::bch::read(&img[..0xD0])).is_none(),
    };
    assert!(err, "C20: a prefix that cuts into the texture payload must yield an error");
    kani::cover!(sel == 3);
}

// @tier quick
// @timeout 1800
// @mem 16
// @bounds strict prefixes of the CGFX single-texture image cut at: empty, inside the header, inside the DATA table, inside the name, inside the payload, one byte before the end (solver-chosen arm)
// @unwindset memchr=400
// @cbmc --max-field-sensitivity-array-size 512
// @claims every such prefix is read without panicking and yields an error (each of these cuts removes part of the texture payload)
// @assume encoding_rs decode replaced by the 7-bit model and core::slice::memchr::memchr by a plain loop (stubs.rs)
#[kani::proof]
#[kani::unwind(70)]
#[kani::stub(encoding_rs::Encoding::decode, crate::stubs::decode_ascii_model)]
#[kani::stub(core::slice::memchr::memchr, crate::stubs::memchr_model)]
fn c20_cgfx_truncated_prefixes() {
    let sel: u8 = kani::any();
    kani::assume(sel < 6);
    let img = cgfx_image();
    let err = match sel {
        0 => keep(mila::cgfx::read(&img[..0])).is_none(),
        1 => keep(mila::cgfx::read(&img[..0x13])).is_none(),
        2 => keep(mila::cgfx::read(&img[..0x9B])).is_none(),
        3 => keep(mila::cgfx::read(&img[..0x122])).is_none(),
        4 => keep(mila::cgfx::read(&img[..0x150])).is_none(),
        _ => keep(mila::cgfx::read(&img[..CGFX_LEN - 1])).is_none(),
    };
    assert!(err, "C20: a prefix that cuts into the texture payload must yield an error");
    kani::cover!(sel == 5);
}

// ---------------------------------------------------------------------------------------------
// TPL (GameCube/Wii): payload size table and one CI8 image through the declarative reader
// ---------------------------------------------------------------------------------------------

use mila::tpl::{Tpl, TplImageFormat};

/// (block width, block height, bits per pixel) of the GameCube texture formats mila can decode
/// (`ColorFormat::from(TplImageFormat)` recognises RGB5A3, RGBA8 and CI8 only; the size entries of
/// the unsupported formats are outside the property).
fn tpl_format_table(sel: u8) -> (TplImageFormat, usize, usize, usize) {
    match sel {
        0 => (TplImageFormat::RGB5A3, 4, 4, 16),
        1 => (TplImageFormat::RGBA8, 4, 4, 32),
        _ => (TplImageFormat::CI8, 8, 4, 8),
    }
}

// @tier quick
// @timeout 1200
// @mem 12
// @bounds the three TPL image formats mila supports (RGB5A3, RGBA8, CI8; solver-chosen), height and width over all of u16
// @claims the number of payload bytes read for a TPL image is rows x columns x bits-per-pixel / 8 with the height rounded up to the format's block height and the width to its block width (non-square blocks: 8 wide, 4 high)
// @assume rounding up uses mila's own texture_utils::align on the reference side (decided by c19_block_helpers / c20_tpl_align)
#[kani::proof]
#[kani::unwind(4)]
fn c20_tpl_payload_size() {
    let sel: u8 = kani::any();
    kani::assume(sel < 3);
    let (format, bw, bh, bpp) = tpl_format_table(sel);
    let height: u16 = kani::any();
    let width: u16 = kani::any();
    let (got_bw, got_bh) = format.block_dimensions();
    assert!(got_bw == bw && got_bh == bh, "C20: TPL block dimensions (width, height) of the format");
    let rows = mila::verif_hooks::texture_utils::align(height as usize, bh);
    let cols = mila::verif_hooks::texture_utils::align(width as usize, bw);
    assert!(format.byte_size_of_image(height, width) == rows * cols * bpp / 8, "C20: TPL payload size must be aligned rows x aligned columns x bits per pixel / 8");
    kani::cover!(sel == 2 && height == 8 && width == 4);
}

// @tier quick
// @timeout 600
// @mem 8
// @bounds value over 0..=65535, increment in {4, 8}
// @claims texture_utils::align rounds up to the next multiple of the increment (and keeps multiples)
#[kani::proof]
#[kani::unwind(4)]
fn c20_tpl_align() {
    let v: u16 = kani::any();
    let eight: bool = kani::any();
    let inc: usize = if eight { 8 } else { 4 };
    let a = mila::verif_hooks::texture_utils::align(v as usize, inc);
    assert!(a % inc == 0 && a >= v as usize && a < v as usize + inc, "C20: align must round up to the next multiple of the block size");
}

const TPL_LEN: usize = 0x8C;

/// One CI8 image, height 8, width 4 (one column of two 8x4 blocks, 64 payload bytes), palette of
/// four RGB5A3 entries; big-endian; image table, headers, palette and payload not in file order.
fn tpl_image() -> [u8; TPL_LEN] {
    let mut img = [0u8; TPL_LEN];
    let be32 = |img: &mut [u8], at: usize, v: u32| {
        let b = v.to_be_bytes();
        for k in 0..4 {
            img[at + k] = b[k];
        }
    };
    be32(&mut img, 0x00, 0x0020AF30);
    be32(&mut img, 0x04, 1);
    be32(&mut img, 0x08, 0x0C);
    // image table item: image header at 0x20, palette header at 0x14
    be32(&mut img, 0x0C, 0x20);
    be32(&mut img, 0x10, 0x14);
    // palette header: 4 entries, RGB5A3, data at 0x44
    img[0x14] = 0;
    img[0x15] = 4;
    be32(&mut img, 0x18, 2);
    be32(&mut img, 0x1C, 0x44);
    // image header: height 8, width 4, CI8, data at 0x4C
    img[0x20] = 0;
    img[0x21] = 8;
    img[0x22] = 0;
    img[0x23] = 4;
    be32(&mut img, 0x24, 9);
    be32(&mut img, 0x28, 0x4C);
    // palette: four opaque RGB555 colours
    let pal: [u16; 4] = [0x8000 | 0x7C00, 0x8000 | 0x03E0, 0x8000 | 0x001F, 0x8000 | 0x7FFF];
    for k in 0..4 {
        img[0x44 + 2 * k] = (pal[k] >> 8) as u8;
        img[0x44 + 2 * k + 1] = pal[k] as u8;
    }
    // payload: two 8x4 blocks of palette indices
    for i in 0..64 {
        img[0x4C + i] = ((i * 7 + i / 8) % 4) as u8;
    }
    img
}

// @tier quick
// @timeout 1800
// @mem 16
// @bounds one CI8 image of height 8 and width 4 (non-square, width not a multiple of the block width) with a 4-entry RGB5A3 palette in a hand-laid-out TPL file; probed pixel symbolic
// @cbmc --max-field-sensitivity-array-size 512
// @claims TPL: one texture with the stated dimensions, width x height RGBA pixels, each pixel the palette colour its payload byte selects (block-to-linear, crop)
// @assume alloc::fmt::format replaced by an empty-string model (error messages only)
#[kani::proof]
#[kani::unwind(70)]
#[kani::stub(alloc::fmt::format, crate::stubs::format_model)]
fn c20_tpl_single_image() {
    let img = tpl_image();
    let t = keep(Tpl::extract_textures(&img)).unwrap();
    assert!(t.len() == 1, "C20: TPL must return as many textures as the image table holds");
    assert!(t[0].width == 4 && t[0].height == 8, "C20: TPL texture dimensions");
    assert!(t[0].pixel_data.len() == 4 * 8 * 4, "C20: TPL texture must have width x height RGBA pixels");
    let pal = keep(mila::ColorFormat::RGB5A3.decode(&img[0x44..0x4C])).unwrap();
    let x: usize = kani::any();
    let y: usize = kani::any();
    kani::assume(x < 4 && y < 8);
    let idx = img[0x4C + (y / 4) * 32 + (y % 4) * 8 + x] as usize;
    let c: usize = kani::any();
    kani::assume(c < 4);
    assert!(t[0].pixel_data[(y * 4 + x) * 4 + c] == pal[idx * 4 + c], "C20: TPL pixel must be the palette colour selected by its own payload byte");
    std::mem::forget(pal);
    std::mem::forget(t);
}

// @tier quick
// @timeout 600
// @expect witness
// @bounds the CTPK single-texture image
// @cbmc --max-field-sensitivity-array-size 512
// @unwindset memchr=400
// @claims vacuity witness for the C20 harnesses (must FAIL at its final assert)
#[kani::proof]
#[kani::unwind(70)]
#[kani::stub(encoding_rs::Encoding::decode, crate::stubs::decode_ascii_model)]
#[kani::stub(core::slice::memchr::memchr, crate::stubs::memchr_model)]
fn c20_witness() {
    let img = ctpk_image();
    let t = keep(mila::ctpk::read(&img)).unwrap();
    if t.len() == 1 {
        assert!(false, "VACUITY-WITNESS");
    }
    std::mem::forget(t);
}
