use mila::{BinArchive, Endian};

// @tier setup
// @bounds none
// @claims smoke harness compiled by `run_check.py --setup` to warm the dependency build
#[kani::proof]
#[kani::unwind(3)]
fn setup_smoke() {
    let a = BinArchive::new(Endian::Little);
    assert!(a.size() == 0);
}
