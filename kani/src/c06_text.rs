//! C06 / C07 — text archive round trip, insertion-ordered map semantics and newline escaping.
use crate::stubs::*;
use crate::util::*;
use mila::verif_hooks::encoded_strings::to_utf_16;
use mila::verif_hooks::text_archive::{write_shift_jis_string, write_utf_16_string};
use mila::{BinArchive, Endian, TextArchive, TextArchiveFormat};

fn check_writer<const N: usize>(prior: usize, utf16: bool) {
    // message = N symbolic NUL-free ASCII bytes, viewed as &str without going through the heap
    let raw: [u8; N] = kani::any();
    for i in 0..N {
        kani::assume(raw[i] != 0 && raw[i] < 0x80);
    }
    let msg: &str = unsafe { std::str::from_utf8_unchecked(&raw) };
    let mut buf: Vec<u8> = Vec::new();
    for _ in 0..prior {
        buf.push(0xEE);
    }
    let r = if utf16 { keep(write_utf_16_string(&mut buf, msg)) } else { keep(write_shift_jis_string(&mut buf, msg)) };
    assert!(r.is_some(), "C06: writing an encodable message must succeed");
    let unit = if utf16 { 2 } else { 1 };
    let body = prior + N * unit;
    let padded = (body + unit + 3) / 4 * 4;
    assert!(buf.len() == padded, "C06: message must be followed by a terminator and zero padding up to the next 4-byte boundary (and no more)");
    for i in 0..24 {
        if i < buf.len() {
            if i < prior {
                assert!(buf[i] == 0xEE, "C06: writer changed earlier bytes");
            } else if i < body {
                let k = (i - prior) / unit;
                let want = if utf16 && (i - prior) % 2 == 1 { 0 } else { raw[k] };
                assert!(buf[i] == want, "C06: message bytes are not the encoded text");
            } else {
                assert!(buf[i] == 0, "C06: terminator / padding must be zero");
            }
        }
    }
    std::mem::forget(buf);
}

// @tier offline
// @offline not registered: solver ran out of memory at 16-32 GB in the trial runs (str::replace with a &str pattern / symbolic-length pushes)
// @timeout 3600
// @mem 32
// @bounds Shift-JIS message writer: every NUL-free ASCII message of length 0, 1 and 3 (symbolic content) appended to an empty buffer (solver-chosen arm)
// @claims write_shift_jis_string: encoded text, one NUL terminator, zero padding so that the buffer ends on a 4-byte boundary; earlier bytes untouched
// @assume encoding_rs encode replaced by the 7-bit model (stubs.rs)
#[kani::proof]
#[kani::unwind(26)]
#[kani::stub(encoding_rs::Encoding::encode, crate::stubs::encode_ascii_model)]
fn c06_shift_jis_writer() {
    let sel: u8 = kani::any();
    kani::assume(sel < 3);
    if sel == 0 { check_writer::<0>(0, false); }
    if sel == 1 { check_writer::<1>(0, false); }
    if sel == 2 { check_writer::<3>(0, false); }
    kani::cover!(sel == 2);
}

// @tier offline
// @offline not registered: solver ran out of memory at 16-32 GB in the trial runs (str::replace with a &str pattern / symbolic-length pushes)
// @timeout 3600
// @mem 32
// @bounds Shift-JIS message writer: every NUL-free ASCII message of length 4 appended to an empty buffer, and of length 1 and 2 appended to a buffer of length 2 (solver-chosen arm)
// @claims as c06_shift_jis_writer when the message exactly fills a word (a full padding word follows) and when the buffer was not aligned before
// @assume encoding_rs encode replaced by the 7-bit model (stubs.rs)
#[kani::proof]
#[kani::unwind(26)]
#[kani::stub(encoding_rs::Encoding::encode, crate::stubs::encode_ascii_model)]
fn c06_shift_jis_writer_b() {
    let sel: u8 = kani::any();
    kani::assume(sel < 3);
    if sel == 0 { check_writer::<4>(0, false); }
    if sel == 1 { check_writer::<1>(2, false); }
    if sel == 2 { check_writer::<2>(2, false); }
    kani::cover!(sel == 0);
}

// @tier offline
// @offline not registered: solver ran out of memory at 16-32 GB in the trial runs (str::replace with a &str pattern / symbolic-length pushes)
// @timeout 3600
// @mem 32
// @bounds UTF-16 message writer: every NUL-free ASCII message of length 0, 1, 2 (symbolic content) appended to an empty buffer (solver-chosen arm)
// @claims write_utf_16_string: UTF-16LE units, a two-byte terminator, zero padding to the next 4-byte boundary; earlier bytes untouched
#[kani::proof]
#[kani::unwind(26)]
fn c06_utf16_writer() {
    let sel: u8 = kani::any();
    kani::assume(sel < 3);
    if sel == 0 { check_writer::<0>(0, true); }
    if sel == 1 { check_writer::<1>(0, true); }
    if sel == 2 { check_writer::<2>(0, true); }
    kani::cover!(sel == 2);
}

// @tier offline
// @offline not registered: solver ran out of memory at 16-32 GB in the trial runs (str::replace with a &str pattern / symbolic-length pushes)
// @timeout 2400
// @mem 16
// @bounds UTF-16 message writer: every NUL-free ASCII message of length 3 appended to an empty buffer, of length 1 appended to a buffer of length 2 (solver-chosen arm)
// @claims as c06_utf16_writer for a message that needs a two-byte padding and for an unaligned buffer
#[kani::proof]
#[kani::unwind(26)]
fn c06_utf16_writer_b() {
    let sel: u8 = kani::any();
    kani::assume(sel < 2);
    if sel == 0 { check_writer::<3>(0, true); }
    if sel == 1 { check_writer::<1>(2, true); }
    kani::cover!(sel == 1);
}

// @tier quick
// @timeout 900
// @mem 12
// @bounds every Unicode scalar value (one char: BMP, astral, U+FEFF and U+FFFE included)
// @claims to_utf_16 equals the UTF-16LE definition: one little-endian unit for the BMP, a surrogate pair (high then low) above it
#[kani::proof]
#[kani::unwind(8)]
fn c06_utf16_encoding_of_every_char() {
    let c: char = kani::any();
    let mut tmp = [0u8; 4];
    let s: &str = c.encode_utf8(&mut tmp);
    let out = keep(to_utf_16(s)).unwrap();
    let v = c as u32;
    if v < 0x10000 {
        assert!(out.len() == 2 && out[0] == (v & 0xFF) as u8 && out[1] == (v >> 8) as u8, "C06: BMP char must be one little-endian UTF-16 unit");
    } else {
        let w = v - 0x10000;
        let hi = 0xD800 + (w >> 10);
        let lo = 0xDC00 + (w & 0x3FF);
        assert!(out.len() == 4 && out[0] == (hi & 0xFF) as u8 && out[1] == (hi >> 8) as u8 && out[2] == (lo & 0xFF) as u8 && out[3] == (lo >> 8) as u8, "C06: astral char must be a surrogate pair, high unit first, little-endian");
    }
    kani::cover!(v == 0xFEFF);
    kani::cover!(v == 0x1F600);
    std::mem::forget(out);
}

// ---------------------------------------------------------------------------------------------
// C07
// ---------------------------------------------------------------------------------------------

const KEYS: [&str; 3] = ["a", "b", "c"];
const MSGS: [&str; 2] = ["", "2"];

/// Reference ordered map over three keys: order[] lists present keys in first-insertion order.
struct Model {
    order: [usize; 3],
    len: usize,
    value: [usize; 3],
}

impl Model {
    fn pos(&self, k: usize) -> Option<usize> {
        for i in 0..3 {
            if i < self.len && self.order[i] == k {
                return Some(i);
            }
        }
        None
    }
    fn set(&mut self, k: usize, m: usize) {
        if self.pos(k).is_none() {
            self.order[self.len] = k;
            self.len += 1;
        }
        self.value[k] = m;
    }
    fn delete(&mut self, k: usize) {
        if let Some(p) = self.pos(k) {
            for i in 0..2 {
                if i >= p && i + 1 < self.len {
                    self.order[i] = self.order[i + 1];
                }
            }
            self.len -= 1;
        }
    }
}

fn same_as_model(t: &TextArchive, m: &Model) {
    let entries = t.get_entries();
    assert!(entries.len() == m.len, "C07: the archive must list exactly the surviving keys");
    for i in 0..3 {
        if i < m.len {
            let (k, v) = entries.get_index(i).unwrap();
            assert!(k == KEYS[m.order[i]], "C07: keys must be listed in order of first insertion (re-setting keeps the place, deleting never reorders, re-adding appends)");
            assert!(v == MSGS[m.value[m.order[i]]], "C07: lookup must return the last value set");
        }
    }
    for k in 0..3 {
        assert!(t.has_message(KEYS[k]) == m.pos(k).is_some(), "C07: has_message disagrees with the surviving keys");
    }
}

fn apply(t: &mut TextArchive, m: &mut Model, op: u8) {
    // op = kind*6 + key*2 + msg ; kind 0 = set, 1 = delete (msg ignored)
    let key = ((op / 2) % 3) as usize;
    let msg = (op % 2) as usize;
    if op < 6 {
        // concrete string literals per branch keep the strings constant for the symbolic executor
        match (key, msg) {
            (0, 0) => t.set_message("a", ""),
            (0, _) => t.set_message("a", "2"),
            (1, 0) => t.set_message("b", ""),
            (1, _) => t.set_message("b", "2"),
            (_, 0) => t.set_message("c", ""),
            (_, _) => t.set_message("c", "2"),
        }
        m.set(key, msg);
    } else {
        match key {
            0 => t.delete_message("a"),
            1 => t.delete_message("b"),
            _ => t.delete_message("c"),
        }
        m.delete(key);
    }
}

fn histories(steps: usize, prefilled: bool) -> usize {
    let mut t = TextArchive::new(TextArchiveFormat::ShiftJIS, Endian::Little);
    let mut m = Model { order: [0; 3], len: 0, value: [0; 3] };
    assert!(!t.is_dirty(), "C07: a new archive must not be dirty");
    if prefilled {
        t.set_message("a", "");
        t.set_message("b", "");
        t.set_message("c", "");
        assert!(t.is_dirty(), "C07: the dirty flag must be set after any set (a new key with an empty message included)");
        m.set(0, 0);
        m.set(1, 0);
        m.set(2, 0);
    }
    let mut any_set = prefilled;
    for step in 0..3 {
        if step < steps {
            let op: u8 = kani::any();
            kani::assume(op < 9);
            // ops 0..5 = set(key, msg); 6..8 = delete(key)
            let enc = if op < 6 { op } else { 6 + (op - 6) * 2 };
            apply(&mut t, &mut m, enc);
            if op < 6 {
                any_set = true;
            }
            same_as_model(&t, &m);
        }
    }
    if any_set {
        assert!(t.is_dirty(), "C07: the dirty flag must be set after any set");
    }
    std::mem::forget(t);
    m.len
}

// @tier quick
// @timeout 1800
// @mem 16
// @bounds every history of 2 operations from {set(k,m), delete(k)} over keys {a,b,c} and messages {"","2"} (9 operations per step, symbolic), starting from the empty archive
// @unwindset memchr=40
// @claims after any such history the archive lists exactly the surviving keys in order of first insertion (re-setting keeps the place, deleting never reorders, re-adding appends), lookups return the last value set, has_message agrees; the dirty flag is clear on a new archive and set after any set (a set that stores an empty message on a new key included)
// @assume IndexMap model of --cfg mila_verif (insertion order, shift_remove / swap_remove with their documented semantics)
#[kani::proof]
#[kani::unwind(8)]
#[kani::stub(core::slice::memchr::memchr, crate::stubs::memchr_model)]
fn c07_ordered_map_histories() {
    let n = histories(2, false);
    kani::cover!(n == 2);
}

// @tier quick
// @timeout 1800
// @mem 16
// @bounds as c07_ordered_map_histories, starting from set(a), set(b), set(c)
// @unwindset memchr=40
// @claims as c07_ordered_map_histories (deleting from and re-adding to a populated archive)
// @assume IndexMap model of --cfg mila_verif (insertion order, shift_remove / swap_remove with their documented semantics)
#[kani::proof]
#[kani::unwind(8)]
#[kani::stub(core::slice::memchr::memchr, crate::stubs::memchr_model)]
fn c07_ordered_map_histories_prefilled() {
    let n = histories(2, true);
    kani::cover!(n == 1);
}

// @tier offline
// @offline not registered: solver ran out of memory at 16-32 GB in the trial runs (str::replace with a &str pattern / symbolic-length pushes)
// @timeout 5400
// @mem 44
// @bounds as c07_ordered_map_histories with every history of 3 operations
// @unwindset memchr=40
// @claims as c07_ordered_map_histories
// @assume IndexMap model of --cfg mila_verif
#[kani::proof]
#[kani::unwind(8)]
#[kani::stub(core::slice::memchr::memchr, crate::stubs::memchr_model)]
fn c07_ordered_map_histories_3() {
    let p: bool = kani::any();
    let n = histories(3, p);
    kani::cover!(n == 1);
}

fn escape_case(input: &str, stored: &str, looked_up: &str) {
    let mut t = TextArchive::new(TextArchiveFormat::ShiftJIS, Endian::Little);
    t.set_message("k", input);
    let (_, raw) = t.get_entries().get_index(0).unwrap();
    assert!(raw == stored, "C07: escape sequences in a message being set must be stored as real newlines (and nothing else changed)");
    let got = t.get_message("k").unwrap();
    assert!(got == looked_up, "C07: every stored newline must come back escaped on lookup (and nothing else changed)");
    // storing a looked-up message back changes nothing
    t.set_message("k", &got);
    let (_, raw2) = t.get_entries().get_index(0).unwrap();
    assert!(raw2 == stored, "C07: storing a looked-up message back under its key must change nothing");
    assert!(t.get_entries().len() == 1);
    std::mem::forget(got);
    std::mem::forget(t);
}

/// Lookup side alone: the message is stored with real newlines (nothing to unescape when it is
/// set), so only `get_message`'s escaping runs on a text with newlines.
fn lookup_case(stored: &str, looked_up: &str) {
    let mut t = TextArchive::new(TextArchiveFormat::ShiftJIS, Endian::Little);
    t.set_message("k", stored);
    let got = t.get_message("k").unwrap();
    assert!(got.len() == looked_up.len(), "C07: every stored newline must come back as the two characters backslash, n (length)");
    assert!(got == looked_up, "C07: every stored newline must come back escaped on lookup (a trailing newline included)");
    std::mem::forget(got);
    std::mem::forget(t);
}

// @tier quick
// @timeout 900
// @mem 12
// @bounds the stored message "<LF>" (a single real newline) or "a<LF>" (solver-chosen): a newline at the very end of a message
// @unwindset memchr=40
// @claims get_message escapes every stored newline, the last character of the message included
// @assume core::slice::memchr::memchr replaced by a plain loop (stubs.rs)
#[kani::proof]
#[kani::unwind(16)]
#[kani::stub(core::slice::memchr::memchr, crate::stubs::memchr_model)]
fn c07_lookup_trailing_newline() {
    let two: bool = kani::any();
    if two {
        lookup_case("a\n", "a\\n");
    } else {
        lookup_case("\n", "\\n");
    }
    kani::cover!(two);
}

// @tier offline
// @offline not registered: solver ran out of memory at 16-32 GB in the trial runs (str::replace with a &str pattern / symbolic-length pushes)
// @timeout 3600
// @mem 44
// @bounds the concrete message "a\\nb": an escape sequence between two letters
// @unwindset memchr=40
// @claims escape sequences are stored as real newlines, every newline comes back escaped, lone backslashes are untouched, and set(get(k)) is the identity on the stored text
// @assume core::slice::memchr::memchr replaced by a plain loop (stubs.rs)
#[kani::proof]
#[kani::unwind(16)]
#[kani::stub(core::slice::memchr::memchr, crate::stubs::memchr_model)]
fn c07_escaping_escape_sequence() {
    escape_case("a\\nb", "a\nb", "a\\nb");
}

// @tier offline
// @offline not registered: solver ran out of memory at 16-32 GB in the trial runs (str::replace with a &str pattern / symbolic-length pushes)
// @timeout 3600
// @mem 44
// @bounds the concrete message "a<LF>b": a real newline
// @unwindset memchr=40
// @claims escape sequences are stored as real newlines, every newline comes back escaped, lone backslashes are untouched, and set(get(k)) is the identity on the stored text
// @assume core::slice::memchr::memchr replaced by a plain loop (stubs.rs)
#[kani::proof]
#[kani::unwind(16)]
#[kani::stub(core::slice::memchr::memchr, crate::stubs::memchr_model)]
fn c07_escaping_real_newline() {
    escape_case("a\nb", "a\nb", "a\\nb");
}

// @tier quick
// @timeout 600
// @mem 8
// @bounds the concrete message "\\": a lone backslash
// @unwindset memchr=40
// @claims escape sequences are stored as real newlines, every newline comes back escaped, lone backslashes are untouched, and set(get(k)) is the identity on the stored text
// @assume core::slice::memchr::memchr replaced by a plain loop (stubs.rs)
#[kani::proof]
#[kani::unwind(16)]
#[kani::stub(core::slice::memchr::memchr, crate::stubs::memchr_model)]
fn c07_escaping_lone_backslash() {
    escape_case("\\", "\\", "\\");
}

// @tier offline
// @offline not registered: solver ran out of memory at 16-32 GB in the trial runs (str::replace with a &str pattern / symbolic-length pushes)
// @timeout 3600
// @mem 44
// @bounds the concrete message "n\\": the letter n followed by a backslash
// @unwindset memchr=40
// @claims escape sequences are stored as real newlines, every newline comes back escaped, lone backslashes are untouched, and set(get(k)) is the identity on the stored text
// @assume core::slice::memchr::memchr replaced by a plain loop (stubs.rs)
#[kani::proof]
#[kani::unwind(16)]
#[kani::stub(core::slice::memchr::memchr, crate::stubs::memchr_model)]
fn c07_escaping_trailing_backslash() {
    escape_case("n\\", "n\\", "n\\");
}

// @tier quick
// @timeout 600
// @mem 8
// @bounds the concrete message the empty message
// @unwindset memchr=40
// @claims escape sequences are stored as real newlines, every newline comes back escaped, lone backslashes are untouched, and set(get(k)) is the identity on the stored text
// @assume core::slice::memchr::memchr replaced by a plain loop (stubs.rs)
#[kani::proof]
#[kani::unwind(16)]
#[kani::stub(core::slice::memchr::memchr, crate::stubs::memchr_model)]
fn c07_escaping_empty() {
    escape_case("", "", "");
}

// @tier offline
// @offline not registered: solver ran out of memory at 16-32 GB in the trial runs (str::replace with a &str pattern / symbolic-length pushes)
// @timeout 3600
// @mem 44
// @bounds the concrete message "\\\\n": a backslash before an escape sequence
// @unwindset memchr=40
// @claims escape sequences are stored as real newlines, every newline comes back escaped, lone backslashes are untouched, and set(get(k)) is the identity on the stored text
// @assume core::slice::memchr::memchr replaced by a plain loop (stubs.rs)
#[kani::proof]
#[kani::unwind(16)]
#[kani::stub(core::slice::memchr::memchr, crate::stubs::memchr_model)]
fn c07_escaping_backslash_before_escape() {
    escape_case("\\\\n", "\\\n", "\\\\n");
}

// @tier offline
// @offline not registered: solver ran out of memory at 16-32 GB in the trial runs (str::replace with a &str pattern / symbolic-length pushes)
// @timeout 3600
// @mem 44
// @bounds the concrete message two consecutive escape sequences
// @unwindset memchr=40
// @claims escape sequences are stored as real newlines, every newline comes back escaped, lone backslashes are untouched, and set(get(k)) is the identity on the stored text
// @assume core::slice::memchr::memchr replaced by a plain loop (stubs.rs)
#[kani::proof]
#[kani::unwind(16)]
#[kani::stub(core::slice::memchr::memchr, crate::stubs::memchr_model)]
fn c07_escaping_two_escapes() {
    escape_case("\\n\\n", "\n\n", "\\n\\n");
}

// @tier quick
// @timeout 600
// @expect witness
// @bounds set(a) then delete(a)
// @unwindset memchr=40
// @claims vacuity witness for the C06/C07 harnesses (must FAIL at its final assert)
#[kani::proof]
#[kani::unwind(8)]
#[kani::stub(core::slice::memchr::memchr, crate::stubs::memchr_model)]
fn c07_witness() {
    let mut t = TextArchive::new(TextArchiveFormat::ShiftJIS, Endian::Little);
    t.set_message("a", "1");
    t.delete_message("a");
    if t.get_entries().len() == 0 && t.is_dirty() {
        assert!(false, "VACUITY-WITNESS");
    }
    std::mem::forget(t);
}
