//! C03 — allocate / deallocate / truncate relocate every annotation consistently.
//!
//! Kernel layer: the private shift / filter helpers of bin_archive.rs (reached through the
//! `verif_hooks` wrappers), decided at full 64-bit width. Maps are the verification-build
//! `HashMap` model with two entries at symbolic keys; the generic helpers are instantiated at
//! `T = u8` (values are only cloned, never inspected, by the helpers).
use crate::util::*;
use mila::verif_hooks::bin_archive as k;
use mila::verif_support::HashMap;

/// Reference shifting rule of the property statement.
fn shifted(key: usize, address: usize, count: usize, subtract: bool, inclusive: bool) -> usize {
    let moves = if inclusive { key >= address } else { key > address };
    if !moves {
        key
    } else if subtract {
        key - count
    } else {
        key + count
    }
}

fn two_entries() -> (HashMap<usize, u8>, usize, usize, u8, u8, bool) {
    let k1: usize = kani::any();
    let k2: usize = kani::any();
    let v1: u8 = kani::any();
    let v2: u8 = kani::any();
    let second: bool = kani::any();
    kani::assume(k1 != k2);
    let mut m = HashMap::new();
    m.insert(k1, v1);
    if second {
        m.insert(k2, v2);
    }
    (m, k1, k2, v1, v2, second)
}

// @tier quick
// @timeout 300
// @bounds all pointer/address/count values in usize, both directions, under the callers' precondition (no overflow on add; on subtract the key is outside [address, address+count))
// @claims adjust_pointer: keys at or after the address move by count, keys before it stay
#[kani::proof]
#[kani::unwind(6)]
fn c03_adjust_pointer() {
    let pointer: usize = kani::any();
    let address: usize = kani::any();
    let count: usize = kani::any();
    let subtract: bool = kani::any();
    if subtract {
        kani::assume(address <= usize::MAX - count);
        kani::assume(pointer < address || pointer >= address + count);
    } else {
        kani::assume(pointer <= usize::MAX - count);
    }
    let got = k::adjust_pointer(pointer, address, count, subtract);
    assert!(got == shifted(pointer, address, count, subtract, true), "C03: adjust_pointer does not follow the shifting rule (cells at or after the address move)");
    kani::cover!(pointer == address && subtract);
    kani::cover!(pointer == address && !subtract && count > 0);
}

// @tier quick
// @timeout 300
// @bounds map of 1..=2 entries at any distinct usize keys; address/count any usize (no-overflow precondition); both directions; instantiation T=u8
// @claims adjust_text (strings and pointer-cell sources): every entry at or after the address moves by count, the others stay; nothing lost, nothing invented
#[kani::proof]
#[kani::unwind(6)]
fn c03_adjust_text() {
    let (m, k1, k2, v1, v2, second) = two_entries();
    let address: usize = kani::any();
    let count: usize = kani::any();
    let subtract: bool = kani::any();
    if subtract {
        kani::assume(address <= usize::MAX - count);
        kani::assume(k1 < address || k1 >= address + count);
        kani::assume(k2 < address || k2 >= address + count);
    } else {
        kani::assume(k1 <= usize::MAX - count && k2 <= usize::MAX - count);
    }
    let out = k::adjust_text(&m, address, count, subtract);
    let n1 = shifted(k1, address, count, subtract, true);
    let n2 = shifted(k2, address, count, subtract, true);
    assert!(out.len() == if second { 2 } else { 1 }, "C03: adjust_text lost or invented an entry");
    assert!(out.get(&n1) == Some(&v1), "C03: adjust_text did not relocate an entry according to the shifting rule");
    if second {
        assert!(out.get(&n2) == Some(&v2), "C03: adjust_text did not relocate the second entry according to the shifting rule");
    }
    kani::cover!(second && k1 == address && k2 < address);
    kani::cover!(second && subtract && k1 == address + count);
}

// @tier quick
// @timeout 300
// @bounds map of 1..=2 entries at any distinct usize keys; address/count any usize (no-overflow precondition); both directions; both values of the inclusive flag; instantiation T=u8
// @claims adjust_labels: labels after the address (or at it when inclusive shifting is requested) move by count, the others stay; nothing lost, nothing invented
#[kani::proof]
#[kani::unwind(6)]
fn c03_adjust_labels() {
    let (m, k1, k2, v1, v2, second) = two_entries();
    let address: usize = kani::any();
    let count: usize = kani::any();
    let subtract: bool = kani::any();
    let ge: bool = kani::any();
    if subtract {
        kani::assume(address <= usize::MAX - count);
        kani::assume(k1 < address || k1 >= address + count);
        kani::assume(k2 < address || k2 >= address + count);
        // a label exactly at `address` survives deallocation only when count == 0 … or never: it was filtered
    } else {
        kani::assume(k1 <= usize::MAX - count && k2 <= usize::MAX - count);
    }
    let out = k::adjust_labels(&m, address, count, subtract, ge);
    let n1 = shifted(k1, address, count, subtract, ge);
    let n2 = shifted(k2, address, count, subtract, ge);
    assert!(out.len() == if second { 2 } else { 1 }, "C03: adjust_labels lost or invented an entry");
    assert!(out.get(&n1) == Some(&v1), "C03: adjust_labels did not follow the shifting rule (after the address, or at it when inclusive)");
    if second {
        assert!(out.get(&n2) == Some(&v2), "C03: adjust_labels did not follow the shifting rule for the second entry");
    }
    kani::cover!(k1 == address && ge && !subtract && count > 0);
    kani::cover!(k1 == address && !ge && !subtract && count > 0);
    kani::cover!(second && k2 > address && subtract && count > 0);
}

// @tier quick
// @timeout 300
// @bounds map of 1..=2 pointers with any distinct usize sources and any destinations; address/count any usize (no-overflow precondition); both directions; both values of the inclusive flag
// @claims adjust_pointers: sources at or after the address move by count; destinations after the address (or at it when inclusive) move by count; nothing lost, nothing invented
#[kani::proof]
#[kani::unwind(6)]
fn c03_adjust_pointers() {
    let s1: usize = kani::any();
    let s2: usize = kani::any();
    let d1: usize = kani::any();
    let d2: usize = kani::any();
    let second: bool = kani::any();
    kani::assume(s1 != s2);
    let mut m: HashMap<usize, usize> = HashMap::new();
    m.insert(s1, d1);
    if second {
        m.insert(s2, d2);
    }
    let address: usize = kani::any();
    let count: usize = kani::any();
    let subtract: bool = kani::any();
    let ge: bool = kani::any();
    if subtract {
        kani::assume(address <= usize::MAX - count);
        let end = address + count;
        kani::assume((s1 < address || s1 >= end) && (s2 < address || s2 >= end));
        kani::assume((d1 < address || d1 >= end) && (d2 < address || d2 >= end));
    } else {
        kani::assume(s1 <= usize::MAX - count && s2 <= usize::MAX - count);
        kani::assume(d1 <= usize::MAX - count && d2 <= usize::MAX - count);
    }
    let out = k::adjust_pointers(&m, address, count, subtract, ge);
    let ns1 = shifted(s1, address, count, subtract, true);
    let ns2 = shifted(s2, address, count, subtract, true);
    let nd1 = shifted(d1, address, count, subtract, ge);
    let nd2 = shifted(d2, address, count, subtract, ge);
    assert!(out.len() == if second { 2 } else { 1 }, "C03: adjust_pointers lost or invented a pointer");
    assert!(out.get(&ns1) == Some(&nd1), "C03: adjust_pointers did not relocate source/destination according to the shifting rule");
    if second {
        assert!(out.get(&ns2) == Some(&nd2), "C03: adjust_pointers did not relocate the second pointer according to the shifting rule");
    }
    kani::cover!(d1 == address && ge && !subtract && count > 0);
    kani::cover!(d1 == address && !ge && !subtract && count > 0);
    kani::cover!(s1 == address && d1 < address);
}

// @tier quick
// @timeout 300
// @bounds map of 1..=2 entries at any distinct usize keys; address/count any usize with address+count not overflowing; instantiation T=u8
// @claims filter_text_or_labels keeps exactly the entries whose key lies outside [address, address+count)
#[kani::proof]
#[kani::unwind(6)]
fn c03_filter_text_or_labels() {
    let (m, k1, k2, v1, v2, second) = two_entries();
    let address: usize = kani::any();
    let count: usize = kani::any();
    kani::assume(address <= usize::MAX - count);
    let out = k::filter_text_or_labels(&m, address, count);
    let in1 = k1 >= address && k1 - address < count;
    let in2 = k2 >= address && k2 - address < count;
    assert!(out.get(&k1) == if in1 { None } else { Some(&v1) }, "C03: filter must drop exactly the annotations inside the removed range");
    if second {
        assert!(out.get(&k2) == if in2 { None } else { Some(&v2) }, "C03: filter must drop exactly the annotations inside the removed range (second entry)");
    }
    let expect = (if in1 { 0 } else { 1 }) + (if second && !in2 { 1 } else { 0 });
    assert!(out.len() == expect, "C03: filter lost or invented an entry");
    kani::cover!(in1 && second && !in2);
    kani::cover!(k1 == address + count && count > 0);
}

// @tier quick
// @timeout 300
// @bounds map of 1..=2 pointers with any distinct usize sources and any destinations; address/count any usize with address+count not overflowing
// @claims filter_pointers keeps exactly the pointers whose source and destination both lie outside [address, address+count)
#[kani::proof]
#[kani::unwind(6)]
fn c03_filter_pointers() {
    let s1: usize = kani::any();
    let s2: usize = kani::any();
    let d1: usize = kani::any();
    let d2: usize = kani::any();
    let second: bool = kani::any();
    kani::assume(s1 != s2);
    let mut m: HashMap<usize, usize> = HashMap::new();
    m.insert(s1, d1);
    if second {
        m.insert(s2, d2);
    }
    let address: usize = kani::any();
    let count: usize = kani::any();
    kani::assume(address <= usize::MAX - count);
    let inside = |x: usize| x >= address && x - address < count;
    let out = k::filter_pointers(&m, address, count);
    let gone1 = inside(s1) || inside(d1);
    let gone2 = inside(s2) || inside(d2);
    assert!(out.get(&s1) == if gone1 { None } else { Some(&d1) }, "C03: filter_pointers must drop exactly the pointers located in or pointing into the removed range");
    if second {
        assert!(out.get(&s2) == if gone2 { None } else { Some(&d2) }, "C03: filter_pointers must drop exactly the pointers located in or pointing into the removed range (second)");
    }
    let expect = (if gone1 { 0 } else { 1 }) + (if second && !gone2 { 1 } else { 0 });
    assert!(out.len() == expect, "C03: filter_pointers lost or invented a pointer");
    kani::cover!(!inside(s1) && inside(d1));
    kani::cover!(d1 == address + count && count > 0 && !gone1);
}

// @tier quick
// @timeout 300
// @bounds every (address, size, flag) and every (value, 4)
// @claims validate_address: Ok iff address < size (or <= size when the end is valid); validate_alignment(v,4): Ok iff v is a multiple of 4
#[kani::proof]
#[kani::unwind(6)]
fn c03_validators() {
    let address: usize = kani::any();
    let size: usize = kani::any();
    let end_ok: bool = kani::any();
    let r = keep(k::validate_address(address, size, end_ok));
    assert!(r.is_some() == if end_ok { address <= size } else { address < size }, "C03/C04: validate_address must accept exactly start < size (end <= size)");
    let v: usize = kani::any();
    let al = keep(k::validate_alignment(v, 4));
    assert!(al.is_some() == (v & 3 == 0), "C03: validate_alignment must accept exactly the multiples of 4");
    kani::cover!(address == size && end_ok);
    kani::cover!(v == usize::MAX - 3);
}

// @tier quick
// @timeout 300
// @expect witness
// @bounds as c03_adjust_labels
// @claims vacuity witness for the C03 kernel harnesses (must FAIL at its final assert)
#[kani::proof]
#[kani::unwind(6)]
fn c03_witness() {
    let (m, k1, _k2, _v1, _v2, second) = two_entries();
    let address: usize = kani::any();
    kani::assume(k1 <= usize::MAX - 4);
    kani::assume(!second);
    let out = k::adjust_labels(&m, address, 4, false, true);
    if out.len() == 1 && k1 == address {
        assert!(false, "VACUITY-WITNESS");
    }
}
