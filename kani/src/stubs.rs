//! Stubs for code that is not the subject of a harness (listed in the evidence as assumptions).
use encoding_rs::Encoding;
use std::borrow::Cow;

/// 7-bit model of `Encoding::encode`: ASCII passes through unchanged, anything else is an error.
pub fn encode_ascii_model<'a>(
    this: &'static Encoding,
    string: &'a str,
) -> (Cow<'a, [u8]>, &'static Encoding, bool) {
    let bytes = string.as_bytes();
    let mut bad = false;
    for i in 0..bytes.len() {
        if bytes[i] >= 0x80 {
            bad = true;
        }
    }
    (Cow::Borrowed(bytes), this, bad)
}

/// 7-bit model of `Encoding::decode`: ASCII passes through unchanged; any other input decodes to
/// a fixed replacement string with the error flag set (the real decoders are total as well).
pub fn decode_ascii_model<'a>(
    this: &'static Encoding,
    bytes: &'a [u8],
) -> (Cow<'a, str>, &'static Encoding, bool) {
    let mut bad = false;
    for i in 0..bytes.len() {
        if bytes[i] >= 0x80 {
            bad = true;
        }
    }
    if bad {
        (Cow::Borrowed("?"), this, true)
    } else {
        (Cow::Borrowed(unsafe { std::str::from_utf8_unchecked(bytes) }), this, false)
    }
}

/// `format!` is only used for error messages in mila.
pub fn format_model(_args: std::fmt::Arguments<'_>) -> String {
    String::new()
}
