//! Stubs for code that is not the subject of a harness (listed in the evidence as assumptions).
use encoding_rs::Encoding;
use std::borrow::Cow;

/// 7-bit model of `Encoding::encode`: ASCII passes through unchanged, anything else is an error.
pub fn encode_ascii_model<'a>(
    this: &'static Encoding,
    string: &'a str,
) -> (Cow<'a, [u8]>, &'static Encoding, bool) {
    let bytes = string.as_bytes();
    let mut bad = false;
    for i in 0..bytes.len() {
        if bytes[i] >= 0x80 {
            bad = true;
        }
    }
    (Cow::Borrowed(bytes), this, bad)
}

/// 7-bit model of `Encoding::decode`: ASCII passes through unchanged; any other input decodes to
/// a fixed replacement string with the error flag set (the real decoders are total as well).
/// For UTF-16LE the units must be ASCII code points (high byte 0); each unit becomes one char.
pub fn decode_ascii_model<'a>(
    this: &'static Encoding,
    bytes: &'a [u8],
) -> (Cow<'a, str>, &'static Encoding, bool) {
    if std::ptr::eq(this, encoding_rs::UTF_16LE) {
        let mut out = String::new();
        let mut bad = bytes.len() % 2 != 0;
        let mut i = 0;
        while i + 1 < bytes.len() {
            if bytes[i + 1] != 0 || bytes[i] >= 0x80 {
                bad = true;
            } else {
                out.push(bytes[i] as char);
            }
            i += 2;
        }
        if bad {
            return (Cow::Borrowed("?"), this, true);
        }
        return (Cow::Owned(out), this, false);
    }
    let mut bad = false;
    for i in 0..bytes.len() {
        if bytes[i] >= 0x80 {
            bad = true;
        }
    }
    if bad {
        (Cow::Borrowed("?"), this, true)
    } else {
        (Cow::Borrowed(unsafe { std::str::from_utf8_unchecked(bytes) }), this, false)
    }
}

/// `format!` is only used for error messages in mila.
pub fn format_model(_args: std::fmt::Arguments<'_>) -> String {
    String::new()
}

// ---------------------------------------------------------------------------------------------
// nintendo_lz::decompress_arr recorder (wrapper harnesses of C11 only)
// ---------------------------------------------------------------------------------------------

/// All monitor state lives in structs that start with a unique non-zero tag. Kani 0.68 resolves a
/// *constant* whose bytes equal a static's initial value to that static's symbol (measured:
/// `RawVecInner::ZERO_CAP`, eight zero bytes, was read from `static mut SEARCH_LOOKAHEAD: usize = 0`,
/// so every `Vec::new()` after the harness had set the look-ahead started with capacity 18); a
/// tagged struct cannot coincide with any constant of the code under test.
pub struct LzRecorder {
    pub tag: u64,
    pub calls: usize,
    pub arg_len: usize,
    pub arg_first: [u8; 8],
    pub returns_ok: bool,
}
pub static mut LZ: LzRecorder = LzRecorder { tag: 0x6D69_6C61_4C5A_5245, calls: 0, arg_len: 0, arg_first: [0; 8], returns_ok: false };

/// Records the slice handed to the dependency and returns Ok(vec![0xAB]) or Err as preset.
pub fn decompress_arr_recorder(input: &[u8]) -> Result<Vec<u8>, Box<dyn std::error::Error>> {
    unsafe {
        LZ.calls += 1;
        LZ.arg_len = input.len();
        for i in 0..8 {
            if i < input.len() {
                LZ.arg_first[i] = input[i];
            }
        }
        if LZ.returns_ok {
            Ok(vec![0xAB])
        } else {
            Err(Box::new(RecorderError))
        }
    }
}

#[derive(Debug)]
pub struct RecorderError;

impl std::fmt::Display for RecorderError {
    fn fmt(&self, _f: &mut std::fmt::Formatter<'_>) -> std::fmt::Result {
        Ok(())
    }
}

impl std::error::Error for RecorderError {}

// ---------------------------------------------------------------------------------------------
// Contract monitor for the shared match search (window-edge harnesses of C08/C09/C10)
// ---------------------------------------------------------------------------------------------

/// Look-ahead the caller under test must offer (0x12 for LZ10, 0x1000 for LZ13); set by the harness.
pub struct SearchMonitor {
    pub tag: u64,
    pub lookahead: usize,
    pub calls: usize,
    pub max_window: usize,
    pub ff_step: usize,
    pub ff_until: usize,
}
pub static mut SEARCH: SearchMonitor = SearchMonitor { tag: 0x6D69_6C61_5345_4152, lookahead: 0, calls: 0, max_window: 0, ff_step: 0, ff_until: 0 };
/// Fast-forward mode (window-edge harnesses of the quick tier): while the cursor is at least 2 and
/// cursor + SEARCH.ff_step <= SEARCH.ff_until the monitor answers "match of SEARCH.ff_step bytes at
/// displacement 2" (a true occurrence in the constant input those harnesses use), so the caller
/// reaches the window edge in ~250 iterations instead of 4096; 0 = always answer "no match".

/// Stands in for `mila::lz13::get_occurrence_length`: checks the call-site contract of the two
/// compressors (window = the last min(position, 4096) bytes ending at the cursor, look-ahead = the
/// format's maximum match length capped by the remaining input) and reports "no match".
pub fn occurrence_contract_monitor(
    bytes: &[u8],
    new_ptr: usize,
    new_length: usize,
    old_ptr: usize,
    old_length: usize,
) -> (i32, usize) {
    unsafe {
        SEARCH.calls += 1;
        if old_length > SEARCH.max_window {
            SEARCH.max_window = old_length;
        }
        assert!(old_length <= 0x1000, "C08/C09: look-back window larger than 4096 bytes: a displacement would not fit the 12-bit field");
        assert!(old_length == core::cmp::min(new_ptr, 0x1000), "C10: the whole window (the last min(position, 4096) bytes) must be offered to the match search");
        assert!(old_ptr + old_length == new_ptr, "C08/C09: the window must end at the cursor");
        assert!(new_length == core::cmp::min(bytes.len() - new_ptr, SEARCH.lookahead), "C10: the look-ahead must be the format's full match length capped by the remaining input");
        if SEARCH.ff_step > 0 && new_ptr >= 2 && new_ptr + SEARCH.ff_step <= SEARCH.ff_until && new_length >= SEARCH.ff_step {
            return (SEARCH.ff_step as i32, 2);
        }
    }
    (0, 0)
}

/// Stands in for `mila::lz13::calculate_lz13_header` in the window-edge harness (its value only
/// fills bytes 1..3 of the wrapper, which the property leaves unspecified).
pub fn lz13_header_stub(_bytes: &[u8]) -> Result<usize, mila::CompressionError> {
    Ok(0)
}

/// Plain-loop model of `core::slice::memchr::memchr` (the real one scans word-wise after aligning
/// the pointer, which CBMC cannot resolve for a pointer of unknown alignment).
pub fn memchr_model(x: u8, text: &[u8]) -> Option<usize> {
    let mut i = 0;
    while i < text.len() {
        if text[i] == x {
            return Some(i);
        }
        i += 1;
    }
    None
}
