//! Stubs for code that is not the subject of a harness (listed in the evidence as assumptions).
use encoding_rs::Encoding;
use std::borrow::Cow;

/// 7-bit model of `Encoding::encode`: ASCII passes through unchanged, anything else is an error.
pub fn encode_ascii_model<'a>(
    this: &'static Encoding,
    string: &'a str,
) -> (Cow<'a, [u8]>, &'static Encoding, bool) {
    let bytes = string.as_bytes();
    let mut bad = false;
    for i in 0..bytes.len() {
        if bytes[i] >= 0x80 {
            bad = true;
        }
    }
    (Cow::Borrowed(bytes), this, bad)
}

/// 7-bit model of `Encoding::decode`: ASCII passes through unchanged; any other input decodes to
/// a fixed replacement string with the error flag set (the real decoders are total as well).
/// For UTF-16LE the units must be ASCII code points (high byte 0); each unit becomes one char.
pub fn decode_ascii_model<'a>(
    this: &'static Encoding,
    bytes: &'a [u8],
) -> (Cow<'a, str>, &'static Encoding, bool) {
    if std::ptr::eq(this, encoding_rs::UTF_16LE) {
        let mut out = String::new();
        let mut bad = bytes.len() % 2 != 0;
        let mut i = 0;
        while i + 1 < bytes.len() {
            if bytes[i + 1] != 0 || bytes[i] >= 0x80 {
                bad = true;
            } else {
                out.push(bytes[i] as char);
            }
            i += 2;
        }
        if bad {
            return (Cow::Borrowed("?"), this, true);
        }
        return (Cow::Owned(out), this, false);
    }
    let mut bad = false;
    for i in 0..bytes.len() {
        if bytes[i] >= 0x80 {
            bad = true;
        }
    }
    if bad {
        (Cow::Borrowed("?"), this, true)
    } else {
        (Cow::Borrowed(unsafe { std::str::from_utf8_unchecked(bytes) }), this, false)
    }
}

/// `format!` is only used for error messages in mila.
pub fn format_model(_args: std::fmt::Arguments<'_>) -> String {
    String::new()
}

// ---------------------------------------------------------------------------------------------
// nintendo_lz::decompress_arr recorder (wrapper harnesses of C11 only)
// ---------------------------------------------------------------------------------------------

pub static mut LZ_CALLS: usize = 0;
pub static mut LZ_ARG_LEN: usize = 0;
pub static mut LZ_ARG_FIRST: [u8; 8] = [0; 8];
pub static mut LZ_RETURNS_OK: bool = false;

/// Records the slice handed to the dependency and returns Ok(vec![0xAB]) or Err as preset.
pub fn decompress_arr_recorder(input: &[u8]) -> Result<Vec<u8>, Box<dyn std::error::Error>> {
    unsafe {
        LZ_CALLS += 1;
        LZ_ARG_LEN = input.len();
        for i in 0..8 {
            if i < input.len() {
                LZ_ARG_FIRST[i] = input[i];
            }
        }
        if LZ_RETURNS_OK {
            Ok(vec![0xAB])
        } else {
            Err(Box::new(RecorderError))
        }
    }
}

#[derive(Debug)]
pub struct RecorderError;

impl std::fmt::Display for RecorderError {
    fn fmt(&self, _f: &mut std::fmt::Formatter<'_>) -> std::fmt::Result {
        Ok(())
    }
}

impl std::error::Error for RecorderError {}
