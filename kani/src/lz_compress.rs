//! C08 / C09 / C10 — LZ10 and LZ13 compression: stream validity, expansion to the input, size bounds.
//!
//! The real `compress` functions are run on symbolic inputs; their output is parsed token by token
//! by an independent array-based reference decoder written here (format rules of the statement:
//! type byte, 24-bit length, flag bytes, reference length/displacement ranges, no leftover bytes).
use crate::util::*;
use mila::{LZ10CompressionFormat, LZ13CompressionFormat};

const NMAX: usize = 8;

struct Parsed<const P: usize> {
    ok: bool,
    produced: [u8; P],
    n: usize,
    tokens: usize,
    refs: usize,
    consumed: usize,
}

/// Walks an LZ10 (`lz11 == false`) or LZ11 token stream that starts at `start` (after the header)
/// and must expand to exactly `want` bytes, using at most MAXTOK tokens and copies of at most MAXLEN
/// bytes (loops have concrete trip counts so the symbolic executor does not have to guess them).
/// `ok` is false on any format violation, or when the budgets do not suffice.
fn parse_tokens<const MAXTOK: usize, const MAXLEN: usize, const P: usize>(out: &[u8], start: usize, want: usize, lz11: bool) -> Parsed<P> {
    let mut p = Parsed { ok: true, produced: [0; P], n: 0, tokens: 0, refs: 0, consumed: start };
    let mut pos = start;
    let mut flags = 0u8;
    for t in 0..MAXTOK {
        if p.ok && p.n < want {
            if t % 8 == 0 {
                if pos >= out.len() {
                    p.ok = false;
                } else {
                    flags = out[pos];
                    pos += 1;
                }
            }
            if p.ok {
                p.tokens += 1;
                let bit = 7 - (t % 8);
                if (flags >> bit) & 1 == 0 {
                    if pos >= out.len() {
                        p.ok = false;
                    } else {
                        p.produced[p.n] = out[pos];
                        p.n += 1;
                        pos += 1;
                    }
                } else {
                    p.refs += 1;
                    let avail = out.len() - pos;
                    let b0 = if avail > 0 { out[pos] as usize } else { 0 };
                    let b1 = if avail > 1 { out[pos + 1] as usize } else { 0 };
                    let b2 = if avail > 2 { out[pos + 2] as usize } else { 0 };
                    let b3 = if avail > 3 { out[pos + 3] as usize } else { 0 };
                    let (len, disp, used);
                    if !lz11 {
                        len = (b0 >> 4) + 3;
                        disp = (((b0 & 0xF) << 8) | b1) + 1;
                        used = 2;
                    } else if (b0 >> 4) > 1 {
                        len = (b0 >> 4) + 1;
                        disp = (((b0 & 0xF) << 8) | b1) + 1;
                        used = 2;
                    } else if (b0 >> 4) == 0 {
                        len = (((b0 & 0xF) << 4) | (b1 >> 4)) + 0x11;
                        disp = (((b1 & 0xF) << 8) | b2) + 1;
                        used = 3;
                    } else {
                        len = (((b0 & 0xF) << 12) | (b1 << 4) | (b2 >> 4)) + 0x111;
                        disp = (((b2 & 0xF) << 8) | b3) + 1;
                        used = 4;
                    }
                    // token complete, displacement 1..=4096 and only into data already produced,
                    // length >= 3 (<= 18 for LZ10), no overshoot past the declared length
                    if avail < used || disp > 4096 || disp > p.n || len < 3 || (!lz11 && len > 18)
                        || p.n + len > want || p.n + len > P || len > MAXLEN
                    {
                        p.ok = false;
                    } else {
                        pos += used;
                        for k in 0..MAXLEN {
                            if k < len {
                                p.produced[p.n] = p.produced[p.n - disp];
                                p.n += 1;
                            }
                        }
                    }
                }
            }
        }
    }
    p.consumed = pos;
    p
}

fn check_lz10(data: &[u8; NMAX], len: usize, check_format: bool) {
    let out = keep(LZ10CompressionFormat {}.compress(&data[..len])).unwrap();
    // C10 expansion bound: header + input + one flag byte per eight input bytes
    assert!(out.len() <= 4 + len + (len + 7) / 8, "C10: LZ10 output exceeds header + input + one flag byte per eight bytes");
    if check_format {
        assert!(out.len() >= 4 && out[0] == 0x10, "C08: LZ10 stream must start with the type byte 0x10");
        assert!(out[1] as usize == len && out[2] == 0 && out[3] == 0, "C08: LZ10 header must carry the input length (24-bit little-endian)");
        let p = parse_tokens::<8, 8, 8>(&out, 4, len, false);
        assert!(p.ok, "C08: LZ10 stream is not well-formed (token out of range, reference before start, overshoot or truncated)");
        assert!(p.n == len, "C08: LZ10 stream does not expand to the input length");
        assert!(p.consumed == out.len(), "C08: LZ10 stream has bytes left over");
        for i in 0..NMAX {
            if i < len {
                assert!(p.produced[i] == data[i], "C08: LZ10 stream does not expand to the input");
            }
        }
    }
    std::mem::forget(out);
}

// @tier quick
// @timeout 900
// @mem 12
// @bounds every input of exactly 0 bytes (all 2^0 contents)
// @claims LZ10 compress succeeds; type byte, 24-bit length, flag bytes, references of length 3..=18 with displacement inside the data already produced, no leftover; independent expansion equals the input; size bound of C10
#[kani::proof]
#[kani::unwind(10)]
fn c08_lz10_len0() {
    let data: [u8; NMAX] = kani::any();
    check_lz10(&data, 0, true);
}

// @tier quick
// @timeout 900
// @mem 12
// @bounds every input of exactly 1 bytes (all 2^8 contents)
// @claims LZ10 compress succeeds; type byte, 24-bit length, flag bytes, references of length 3..=18 with displacement inside the data already produced, no leftover; independent expansion equals the input; size bound of C10
#[kani::proof]
#[kani::unwind(10)]
fn c08_lz10_len1() {
    let data: [u8; NMAX] = kani::any();
    check_lz10(&data, 1, true);
}

// @tier quick
// @timeout 900
// @mem 12
// @bounds every input of exactly 2 bytes (all 2^16 contents)
// @claims LZ10 compress succeeds; type byte, 24-bit length, flag bytes, references of length 3..=18 with displacement inside the data already produced, no leftover; independent expansion equals the input; size bound of C10
#[kani::proof]
#[kani::unwind(10)]
fn c08_lz10_len2() {
    let data: [u8; NMAX] = kani::any();
    check_lz10(&data, 2, true);
}

// @tier quick
// @timeout 900
// @mem 12
// @bounds every input of exactly 3 bytes (all 2^24 contents)
// @claims LZ10 compress succeeds; type byte, 24-bit length, flag bytes, references of length 3..=18 with displacement inside the data already produced, no leftover; independent expansion equals the input; size bound of C10
#[kani::proof]
#[kani::unwind(10)]
fn c08_lz10_len3() {
    let data: [u8; NMAX] = kani::any();
    check_lz10(&data, 3, true);
}

// @tier quick
// @timeout 900
// @mem 12
// @bounds every input of exactly 4 bytes (all 2^32 contents)
// @claims LZ10 compress succeeds; type byte, 24-bit length, flag bytes, references of length 3..=18 with displacement inside the data already produced, no leftover; independent expansion equals the input; size bound of C10
#[kani::proof]
#[kani::unwind(10)]
fn c08_lz10_len4() {
    let data: [u8; NMAX] = kani::any();
    check_lz10(&data, 4, true);
}

// @tier quick
// @timeout 900
// @mem 12
// @bounds every input of exactly 5 bytes (all 2^40 contents)
// @claims LZ10 compress succeeds; type byte, 24-bit length, flag bytes, references of length 3..=18 with displacement inside the data already produced, no leftover; independent expansion equals the input; size bound of C10
#[kani::proof]
#[kani::unwind(10)]
fn c08_lz10_len5() {
    let data: [u8; NMAX] = kani::any();
    check_lz10(&data, 5, true);
}

// @tier offline
// @offline not registered: exceeded the quick limits (match search over symbolic bytes) and was not run to completion
// @timeout 3000
// @mem 12
// @bounds every input of exactly 6 bytes (all 2^48 contents)
// @claims LZ10 compress succeeds; type byte, 24-bit length, flag bytes, references of length 3..=18 with displacement inside the data already produced, no leftover; independent expansion equals the input; size bound of C10
#[kani::proof]
#[kani::unwind(10)]
fn c08_lz10_len6() {
    let data: [u8; NMAX] = kani::any();
    check_lz10(&data, 6, true);
}

// @tier offline
// @offline not registered: exceeded the quick limits (match search over symbolic bytes) and was not run to completion
// @timeout 3600
// @mem 12
// @bounds every input of exactly 7 bytes (all 2^56 contents)
// @claims LZ10 compress succeeds; type byte, 24-bit length, flag bytes, references of length 3..=18 with displacement inside the data already produced, no leftover; independent expansion equals the input; size bound of C10
#[kani::proof]
#[kani::unwind(10)]
fn c08_lz10_len7() {
    let data: [u8; NMAX] = kani::any();
    check_lz10(&data, 7, true);
}

fn run_input<const N: usize>(v: u8, w: u8, period2: bool, n: usize) -> [u8; N] {
    let mut x = [0u8; N];
    for i in 0..N {
        if i < n {
            x[i] = if period2 && i % 2 == 1 { w } else { v };
        }
    }
    x
}

fn check_lz10_long<const MAXTOK: usize, const MAXLEN: usize, const N: usize>(x: &[u8; N], n: usize, max_len: usize) {
    let out = keep(LZ10CompressionFormat {}.compress(&x[..n])).unwrap();
    assert!(out.len() >= 4 && out[0] == 0x10 && (out[1] as usize | (out[2] as usize) << 8 | (out[3] as usize) << 16) == n, "C08: LZ10 header (type byte, 24-bit little-endian input length)");
    let p = parse_tokens::<MAXTOK, MAXLEN, N>(&out, 4, n, false);
    assert!(p.ok && p.n == n && p.consumed == out.len(), "C08: LZ10 stream of a long run is not well-formed / has leftover bytes");
    let i: usize = kani::any();
    kani::assume(i < n);
    assert!(p.produced[i] == x[i], "C08: LZ10 stream of a long run does not expand to the input");
    assert!(out.len() <= max_len, "C10: repetition is not exploited (LZ10 output larger than the periodic-input bound)");
    std::mem::forget(out);
}

// @tier quick
// @timeout 900
// @mem 12
// @bounds the 21-byte run of 0x41 (concrete input; tokens L L R18 L)
// @claims LZ10 on a run: the maximal 18-byte reference is used, stream well-formed, expands to the input, size within the period-1 bound of C10
#[kani::proof]
#[kani::unwind(66)]
fn c08_lz10_run21() {
    let x = run_input::<64>(0x41, 0x41, false, 21);
    check_lz10_long::<4, 18, 64>(&x, 21, 4 + 3 + 3 * 2 + 1);
}

// @tier quick
// @timeout 900
// @mem 12
// @bounds the 40-byte run of 0xFF (concrete input; tokens L L R18 R18 L L)
// @claims LZ10 on a long run: consecutive maximal references with growing displacement, trailing literals, well-formed, expands to the input, size within the period-1 bound of C10
#[kani::proof]
#[kani::unwind(66)]
fn c08_lz10_run40() {
    let x = run_input::<64>(0xFF, 0xFF, false, 40);
    check_lz10_long::<6, 18, 64>(&x, 40, 4 + 3 + 4 * 2 + 1);
}

// @tier quick
// @timeout 900
// @mem 12
// @bounds the 9 distinct bytes "abcdefghi" followed by "abc" (concrete input; nine literals then one reference: two flag bytes)
// @claims LZ10 across a flag-group boundary: the ninth token starts a new flag byte, stream well-formed, expands to the input
#[kani::proof]
#[kani::unwind(66)]
fn c08_lz10_two_flag_groups() {
    let mut x = [0u8; 64];
    for i in 0..9 {
        x[i] = b'a' + i as u8;
    }
    x[9] = b'a';
    x[10] = b'b';
    x[11] = b'c';
    check_lz10_long::<10, 3, 64>(&x, 12, 4 + 2 + 9 + 2);
}

fn check_lz13(data: &[u8; NMAX], len: usize) {
    let out = keep(LZ13CompressionFormat {}.compress(&data[..len])).unwrap();
    assert!(out.len() <= 8 + len + (len + 7) / 8, "C10: LZ13 output exceeds header + input + one flag byte per eight bytes");
    assert!(out.len() >= 8 && out[0] == 0x13, "C09: LZ13 output must start with the 0x13 wrapper");
    assert!(out[4] == 0x11, "C09: the wrapped stream must be LZ11 (type byte 0x11)");
    assert!(out[5] as usize == len && out[6] == 0 && out[7] == 0, "C09: LZ11 header must carry the input length (24-bit little-endian)");
    let p = parse_tokens::<8, 8, 8>(&out, 8, len, true);
    assert!(p.ok, "C09: LZ11 stream is not well-formed (token out of range, reference before start, overshoot or truncated)");
    assert!(p.n == len, "C09: LZ11 stream does not expand to the input length");
    assert!(p.consumed == out.len(), "C09: LZ11 stream has bytes left over");
    for i in 0..NMAX {
        if i < len {
            assert!(p.produced[i] == data[i], "C09: LZ11 stream does not expand to the input");
        }
    }
    std::mem::forget(out);
}

// @tier quick
// @timeout 900
// @mem 16
// @bounds every input of exactly 1 bytes (all 2^8 contents)
// @claims LZ13 compress: 0x13 wrapper, LZ11 header with the input length, well-formed tokens, no leftover; independent expansion equals the input; size bound of C10
#[kani::proof]
#[kani::unwind(10)]
fn c09_lz13_len1() {
    let data: [u8; NMAX] = kani::any();
    check_lz13(&data, 1);
}

// @tier quick
// @timeout 900
// @mem 16
// @bounds every input of exactly 2 bytes (all 2^16 contents)
// @claims LZ13 compress: 0x13 wrapper, LZ11 header with the input length, well-formed tokens, no leftover; independent expansion equals the input; size bound of C10
#[kani::proof]
#[kani::unwind(10)]
fn c09_lz13_len2() {
    let data: [u8; NMAX] = kani::any();
    check_lz13(&data, 2);
}

// @tier offline
// @offline not registered: exceeded the quick limits (match search over symbolic bytes) and was not run to completion
// @timeout 3600
// @mem 16
// @bounds every input of exactly 3 bytes (all 2^24 contents)
// @claims LZ13 compress: 0x13 wrapper, LZ11 header with the input length, well-formed tokens, no leftover; independent expansion equals the input; size bound of C10
#[kani::proof]
#[kani::unwind(10)]
fn c09_lz13_len3() {
    let data: [u8; NMAX] = kani::any();
    check_lz13(&data, 3);
}

// @tier offline
// @offline not registered: exceeded the quick limits (match search over symbolic bytes) and was not run to completion
// @timeout 3600
// @mem 16
// @bounds every input of exactly 4 bytes (all 2^32 contents)
// @claims LZ13 compress: 0x13 wrapper, LZ11 header with the input length, well-formed tokens, no leftover; independent expansion equals the input; size bound of C10
#[kani::proof]
#[kani::unwind(10)]
fn c09_lz13_len4() {
    let data: [u8; NMAX] = kani::any();
    check_lz13(&data, 4);
}

// @tier offline
// @offline not registered: exceeded the quick limits (match search over symbolic bytes) and was not run to completion
// @timeout 3600
// @mem 16
// @bounds every input of exactly 5 bytes (all 2^40 contents)
// @claims LZ13 compress: 0x13 wrapper, LZ11 header with the input length, well-formed tokens, no leftover; independent expansion equals the input; size bound of C10
#[kani::proof]
#[kani::unwind(10)]
fn c09_lz13_len5() {
    let data: [u8; NMAX] = kani::any();
    check_lz13(&data, 5);
}

// @tier offline
// @offline not registered: exceeded the quick limits (match search over symbolic bytes) and was not run to completion
// @timeout 3600
// @mem 16
// @bounds every 5-byte input of the shape a b a b a with symbolic a and b (the smallest inputs that can contain a back-reference)
// @claims LZ13 compress on the smallest repeating inputs: literal/reference decision, short-form reference encoding, stream well-formed, expands to the input, size bound of C10
#[kani::proof]
#[kani::unwind(10)]
fn c09_lz13_ababa() {
    let a: u8 = kani::any();
    let b: u8 = kani::any();
    let data: [u8; NMAX] = [a, b, a, b, a, 0, 0, 0];
    check_lz13(&data, 5);
    kani::cover!(a != b);
    kani::cover!(a == b);
}

// @tier quick
// @timeout 600
// @bounds the empty input
// @claims LZ13 compress of the empty input returns Ok or Err: no panic, no arithmetic overflow, no absurd capacity request
#[kani::proof]
#[kani::unwind(10)]
fn c09_lz13_empty_input() {
    let r = keep(LZ13CompressionFormat {}.compress(&[]));
    if let Some(out) = &r {
        assert!(out.len() >= 8 && out[0] == 0x13 && out[4] == 0x11 && out[5] == 0 && out[6] == 0 && out[7] == 0, "C09: compressed empty input must still be a wrapper + LZ11 header of length 0");
    }
    kani::cover!(r.is_some());
    std::mem::forget(r);
}

fn check_lz13_long<const MAXTOK: usize, const MAXLEN: usize, const N: usize>(x: &[u8; N], n: usize, max_len: usize) {
    let out = keep(LZ13CompressionFormat {}.compress(&x[..n])).unwrap();
    assert!(out.len() >= 8 && out[0] == 0x13 && out[4] == 0x11 && (out[5] as usize | (out[6] as usize) << 8 | (out[7] as usize) << 16) == n, "C09: LZ13 headers (0x13 wrapper, LZ11 type byte, 24-bit little-endian input length)");
    let p = parse_tokens::<MAXTOK, MAXLEN, N>(&out, 8, n, true);
    assert!(p.ok && p.n == n && p.consumed == out.len(), "C09: LZ11 stream of a long run is not well-formed / has leftover bytes");
    let i: usize = kani::any();
    kani::assume(i < n);
    assert!(p.produced[i] == x[i], "C09: LZ11 stream of a long run does not expand to the input");
    assert!(out.len() <= max_len, "C10: repetition is not exploited (LZ13 output larger than the periodic-input bound)");
    std::mem::forget(out);
}

// @tier quick
// @timeout 900
// @mem 12
// @bounds the 18-byte and the 19-byte run of 0x41 (concrete inputs, solver-chosen arm): match lengths 16 (short form) and 17 (three-byte form)
// @claims LZ13 on runs: the 16/17 length-form boundary is encoded correctly, stream well-formed, expands to the input, size within the period-1 bound of C10
#[kani::proof]
#[kani::unwind(66)]
fn c09_lz13_run18_19() {
    let nineteen: bool = kani::any();
    if nineteen {
        let x = run_input::<64>(0x41, 0x41, false, 19);
        check_lz13_long::<3, 17, 64>(&x, 19, 8 + 3 + 2 * 4 + 1);
    } else {
        let x = run_input::<64>(0x41, 0x41, false, 18);
        check_lz13_long::<3, 16, 64>(&x, 18, 8 + 3 + 2 * 4 + 1);
    }
    kani::cover!(nineteen);
}

// @tier quick
// @timeout 1800
// @mem 24
// @bounds the 274-byte run of 0x41 (concrete input): one match of length 272, the last value of the three-byte form
// @cbmc --max-field-sensitivity-array-size 512
// @claims LZ13 at the 272/273 length-form boundary (272): the reference is encoded in the three-byte form, stream well-formed, expands to the input, size within the period-1 bound of C10
#[kani::proof]
#[kani::unwind(324)]
fn c09_lz13_run274() {
    let x = run_input::<320>(0x41, 0x41, false, 274);
    check_lz13_long::<3, 272, 320>(&x, 274, 8 + 3 + 2 * 4 + 1);
}

// @tier quick
// @timeout 1800
// @mem 24
// @bounds the 275-byte run of 0x41 (concrete input): one match of length 273, the first value of the four-byte form
// @cbmc --max-field-sensitivity-array-size 512
// @claims LZ13 at the 272/273 length-form boundary (273): the reference is encoded in the four-byte form, stream well-formed, expands to the input
#[kani::proof]
#[kani::unwind(324)]
fn c09_lz13_run275() {
    let x = run_input::<320>(0x41, 0x41, false, 275);
    check_lz13_long::<3, 273, 320>(&x, 275, 8 + 3 + 2 * 4 + 1);
}

// @tier quick
// @timeout 900
// @mem 12
// @bounds the 40-byte run of 0xFF (concrete input; tokens L L R38)
// @claims LZ13 on a long run: one reference of length 38 in the three-byte form, well-formed, expands to the input, size within the period-1 bound of C10
#[kani::proof]
#[kani::unwind(66)]
fn c09_lz13_run40() {
    let x = run_input::<64>(0xFF, 0xFF, false, 40);
    check_lz13_long::<3, 38, 64>(&x, 40, 8 + 3 + 2 * 4 + 1);
}

// @tier quick
// @timeout 900
// @mem 12
// @bounds every LZ10 input of exactly 5 bytes and every LZ10 input of exactly 3 bytes (two harness arms chosen by the solver)
// @claims C10 expansion bound for LZ10: output <= 4 + n + ceil(n/8) for every input in the bound
#[kani::proof]
#[kani::unwind(10)]
fn c10_expansion_lz10() {
    let data: [u8; NMAX] = kani::any();
    let five: bool = kani::any();
    if five {
        check_lz10(&data, 5, false);
    } else {
        check_lz10(&data, 3, false);
    }
    kani::cover!(five);
}

// @tier quick
// @timeout 900
// @mem 16
// @bounds every LZ13 input of exactly 2 bytes (symbolic), and the concrete 5-byte input "ababa" (two harness arms chosen by the solver)
// @claims C10 expansion bound for LZ13: output <= 8 + n + ceil(n/8) for every input in the bound
#[kani::proof]
#[kani::unwind(10)]
fn c10_expansion_lz13() {
    let five: bool = kani::any();
    let len = if five { 5 } else { 2 };
    let out = if five {
        keep(LZ13CompressionFormat {}.compress(&[0x61, 0x62, 0x61, 0x62, 0x61])).unwrap()
    } else {
        let data: [u8; 2] = kani::any();
        keep(LZ13CompressionFormat {}.compress(&data)).unwrap()
    };
    assert!(out.len() <= 8 + len + (len + 7) / 8, "C10: LZ13 output exceeds header + input + one flag byte per eight bytes");
    kani::cover!(five);
    std::mem::forget(out);
}

fn expansion_case(lz13: bool, x: &[u8]) {
    let n = x.len();
    let out = if lz13 { keep(LZ13CompressionFormat {}.compress(x)) } else { keep(LZ10CompressionFormat {}.compress(x)) };
    match out {
        Some(out) => {
            let header = if lz13 { 8 } else { 4 };
            assert!(out.len() <= header + n + (n + 7) / 8, "C10: output exceeds header + input + one flag byte per eight input bytes (a full flag group must not be followed by an empty one)");
            std::mem::forget(out);
        }
        None => assert!(lz13 && n == 0, "C10: compression may only refuse the empty input (LZ13)"),
    }
}

// @tier quick
// @timeout 900
// @mem 12
// @bounds concrete inputs without any repetition whose token count fills whole flag groups: the empty input, 8 distinct bytes, 16 distinct bytes; LZ10 and LZ13 (solver-chosen arm)
// @claims C10 expansion bound at the flag-group boundary: exactly header + n + n/8 bytes at most when the last flag group is full, header only for the empty input
#[kani::proof]
#[kani::unwind(20)]
fn c10_expansion_full_flag_groups() {
    let sel: u8 = kani::any();
    kani::assume(sel < 6);
    let x16: [u8; 16] = [1, 2, 3, 4, 5, 6, 7, 8, 9, 10, 11, 12, 13, 14, 15, 16];
    if sel == 0 { expansion_case(false, &x16[..0]); }
    if sel == 1 { expansion_case(false, &x16[..8]); }
    if sel == 2 { expansion_case(false, &x16); }
    if sel == 3 { expansion_case(true, &x16[..0]); }
    if sel == 4 { expansion_case(true, &x16[..8]); }
    if sel == 5 { expansion_case(true, &x16); }
    kani::cover!(sel == 1);
    kani::cover!(sel == 5);
}

// @tier quick
// @timeout 1500
// @mem 12
// @bounds period-2 input "abab.." (concrete) of length 40, LZ10 and LZ13 (solver-chosen arm)
// @claims C10 effectiveness, period 2: LZ10 output <= 4 + 4 literals + (ceil(38/18)+1) references of 2 bytes + flag bytes; LZ13 output <= 8 + 4 literals + 2 references of <= 4 bytes + flag byte; streams well-formed and expanding to the input
#[kani::proof]
#[kani::unwind(66)]
fn c10_effectiveness_period2() {
    let (v, w) = (0x61u8, 0x62u8);
    let x = run_input::<64>(v, w, true, 40);
    let lz13: bool = kani::any();
    if lz13 {
        check_lz13_long::<3, 38, 64>(&x, 40, 8 + 4 + 2 * 4 + 1);
    } else {
        check_lz10_long::<6, 18, 64>(&x, 40, 4 + 4 + 4 * 2 + 2);
    }
    kani::cover!(lz13);
}

// @tier quick
// @timeout 300
// @expect witness
// @bounds as c08_lz10_all_inputs_up_to_5 restricted to length 3
// @claims vacuity witness for the compression harnesses (must FAIL at its final assert)
#[kani::proof]
#[kani::unwind(10)]
fn c08_witness() {
    let data: [u8; NMAX] = kani::any();
    let out = keep(LZ10CompressionFormat {}.compress(&data[..3])).unwrap();
    let p = parse_tokens::<8, 8, 8>(&out, 4, 3, false);
    if p.ok && p.n == 3 {
        assert!(false, "VACUITY-WITNESS");
    }
    std::mem::forget(out);
}

// ---------------------------------------------------------------------------------------------
// Window edge: call-site contract of the compressors, match search replaced by a monitor
// ---------------------------------------------------------------------------------------------


// @tier quick
// @timeout 1800
// @mem 12
// @bounds the shared match search on a symbolic 8-byte buffer, cursor 2..=7, window = everything before the cursor, look-ahead 1..=remaining (all symbolic)
// @claims get_occurrence_length returns a real occurrence: displacement in 2..=window, length <= look-ahead, the bytes at cursor-displacement match the bytes at the cursor for that length, and no candidate in the window (displacement >= 2) matches longer
#[kani::proof]
#[kani::unwind(10)]
fn c08_match_search_kernel() {
    let bytes: [u8; 8] = kani::any();
    let new_ptr: usize = kani::any();
    kani::assume(new_ptr >= 2 && new_ptr < 8);
    let new_length: usize = kani::any();
    kani::assume(new_length >= 1 && new_length <= 8 - new_ptr);
    let old_length = new_ptr;
    let (len, disp) = mila::verif_hooks::lz13::get_occurrence_length(&bytes, new_ptr, new_length, 0, old_length);
    let len = len as usize;
    assert!(len <= new_length, "C08: a match cannot be longer than the look-ahead");
    if len > 0 {
        assert!(disp >= 2 && disp <= old_length, "C08: displacement must reach into the window (the search never uses displacement 1)");
        for j in 0..8 {
            if j < len {
                assert!(bytes[new_ptr - disp + j] == bytes[new_ptr + j], "C08: the returned match is not an occurrence of the look-ahead");
            }
        }
    }
    // maximality over every candidate start in the window with displacement >= 2
    for start in 0..8 {
        if start + 2 <= new_ptr {
            let mut l = 0;
            let mut alive = true;
            for j in 0..8 {
                if j < new_length && alive {
                    if bytes[start + j] == bytes[new_ptr + j] {
                        l += 1;
                    } else {
                        alive = false;
                    }
                }
            }
            assert!(l <= len, "C10: the match search must return the longest occurrence in the window");
        }
    }
    kani::cover!(len == 3 && disp == 4);
    kani::cover!(len == 0);
}

// ---------------------------------------------------------------------------------------------
// Window edge in the quick tier: the contract monitor in fast-forward mode
// ---------------------------------------------------------------------------------------------

const EDGE: usize = 4100;

/// Byte stream without a repeated 3-byte sequence (checked for the first 4300 bytes): no back-reference
/// of length >= 3 exists inside it.
fn lcg_stream(n: usize) -> Vec<u8> {
    let mut s: u32 = 4;
    let mut out = Vec::with_capacity(n);
    for _ in 0..n {
        s = s.wrapping_mul(1103515245).wrapping_add(12345);
        out.push((s >> 16) as u8);
    }
    out
}

fn native_compress(lz13: bool, x: &[u8]) -> Vec<u8> {
    if lz13 {
        LZ13CompressionFormat {}.compress(x).expect("C09: compress")
    } else {
        LZ10CompressionFormat {}.compress(x).expect("C08: compress")
    }
}

fn native_decompress(lz13: bool, x: &[u8]) -> Vec<u8> {
    if lz13 {
        LZ13CompressionFormat {}.decompress(x).expect("C09: decompress")
    } else {
        LZ10CompressionFormat {}.decompress(x).expect("C08: decompress")
    }
}

/// Native confirmation of a call-site contract violation found with the monitor stub (replay only:
/// `#[kani::stub]` is not applied in a native run, so the replayed harness probes the real
/// compressor with concrete inputs that sit exactly on the window edge instead):
/// (a) the only earlier occurrence of the tail lies 4097 bytes back -> must round-trip (a window
///     larger than 4096 emits a displacement that does not fit 12 bits);
/// (b) the only earlier occurrence lies exactly 4096 bytes back -> the C10 size bound for period
///     4096 must hold (a smaller window emits literals only);
/// (c) LZ10 only: 1802 equal bytes -> the C10 size bound for L = 18 must hold.
fn native_window_probe(lz13: bool) {
    let base = lcg_stream(4097);
    let mut a = base.clone();
    a.extend_from_slice(&base[..8]);
    let back = native_decompress(lz13, &native_compress(lz13, &a));
    assert!(back == a, "C08/C09: an occurrence 4097 bytes back was referenced: the displacement does not fit the 12-bit field");
    let mut b = base[..4096].to_vec();
    b.extend_from_slice(&base[..18]);
    let out = native_compress(lz13, &b);
    let (header, ref_bytes) = if lz13 { (8, 4) } else { (4, 2) };
    let tokens = 4098 + 2;
    assert!(out.len() <= header + 4098 + 2 * ref_bytes + (tokens + 7) / 8, "C10: an occurrence exactly 4096 bytes back was not used: the window is smaller than 4096 bytes");
    if !lz13 {
        let c = vec![7u8; 1802];
        let out = native_compress(false, &c);
        let refs = (1801 + 17) / 18 + 1;
        assert!(out.len() <= 4 + 3 + 2 * refs + (3 + refs + 7) / 8, "C10: LZ10 does not use its full match length of 18");
    }
}

fn window_edge(lz13: bool) {
    if is_playback() {
        native_window_probe(lz13);
        return;
    }
    let x = [0x55u8; EDGE];
    if lz13 {
        unsafe {
            crate::stubs::SEARCH.lookahead = 0x1000;
            crate::stubs::SEARCH.ff_step = 16;
            crate::stubs::SEARCH.ff_until = 4085;
        }
        let out = keep(LZ13CompressionFormat {}.compress(&x)).unwrap();
        // cursor 0, 1: literals; 2 + 16k (k = 0..=254): 255 references; 4082..=4099: 18 literals
        assert!(unsafe { crate::stubs::SEARCH.calls } == 275, "C09: one search per token");
        assert!(out.len() == 8 + 20 + 255 * 2 + 35, "C09: 20 literals, 255 two-byte references, one flag byte per eight tokens");
        std::mem::forget(out);
    } else {
        unsafe {
            crate::stubs::SEARCH.lookahead = 0x12;
            crate::stubs::SEARCH.ff_step = 18;
            crate::stubs::SEARCH.ff_until = 4085;
        }
        let out = keep(LZ10CompressionFormat {}.compress(&x)).unwrap();
        // cursor 0, 1: literals; 2 + 18k (k = 0..=225): 226 references; 4070..=4099: 30 literals
        assert!(unsafe { crate::stubs::SEARCH.calls } == 258, "C08: one search per token");
        assert!(out.len() == 4 + 32 + 226 * 2 + 33, "C08: 32 literals, 226 two-byte references, one flag byte per eight tokens");
        std::mem::forget(out);
    }
    assert!(unsafe { crate::stubs::SEARCH.max_window } == 0x1000, "C10: the window must reach 4096 bytes");
}

// @tier quick
// @timeout 1800
// @mem 16
// @bounds LZ10 compress on a concrete input of 4100 equal bytes; the match search is replaced by the contract monitor in fast-forward mode (answers "18 bytes at displacement 2" until the cursor reaches 4070, then "no match"): every call site state with cursor in {0, 1, 2+18k, 4070..=4099} is checked, i.e. every cursor around the 4096-byte window edge
// @cbmc --max-field-sensitivity-array-size 4200
// @claims LZ10 call-site contract across the window edge: the window offered to the search is exactly the last min(cursor, 4096) bytes ending at the cursor (never more: the displacement fits 12 bits; never less: the whole window is used), the look-ahead is min(remaining, 18); token and flag layout of the resulting stream
// @assume mila::lz13::get_occurrence_length stubbed by stubs::occurrence_contract_monitor in this harness only (the search itself is decided by c08_match_search_kernel); a violation is confirmed natively by native_window_probe (concrete inputs with the only occurrence 4097 / 4096 bytes back)
// @unwindset compress=300
#[kani::proof]
#[kani::unwind(40)]
#[kani::stub(mila::lz13::get_occurrence_length, crate::stubs::occurrence_contract_monitor)]
fn c08_lz10_window_edge() {
    window_edge(false);
}

// @tier quick
// @timeout 1800
// @mem 16
// @bounds LZ13 compress on 4100 equal bytes, monitor in fast-forward mode (16 bytes at displacement 2 until the cursor reaches 4082, then "no match"); wrapper-length helper stubbed
// @cbmc --max-field-sensitivity-array-size 4200
// @claims LZ13 call-site contract across the window edge: window = the last min(cursor, 4096) bytes ending at the cursor, look-ahead = min(remaining, 4096); token and flag layout of the resulting stream
// @assume mila::lz13::get_occurrence_length and calculate_lz13_header stubbed in this harness only; a violation is confirmed natively by native_window_probe
// @unwindset compress=300
#[kani::proof]
#[kani::unwind(40)]
#[kani::stub(mila::lz13::get_occurrence_length, crate::stubs::occurrence_contract_monitor)]
#[kani::stub(mila::lz13::calculate_lz13_header, crate::stubs::lz13_header_stub)]
fn c09_lz13_window_edge() {
    window_edge(true);
}

// @tier quick
// @timeout 1800
// @mem 16
// @bounds as c08_lz10_window_edge and c09_lz13_window_edge (solver-chosen format)
// @cbmc --max-field-sensitivity-array-size 4200
// @claims C10 effectiveness at the call sites: both compressors offer the whole 4096-byte window and their full match length (18 / 4096) to the match search at every cursor around the window edge
// @assume mila::lz13::get_occurrence_length and calculate_lz13_header stubbed in this harness only; a violation is confirmed natively by native_window_probe
// @unwindset compress=300
#[kani::proof]
#[kani::unwind(40)]
#[kani::stub(mila::lz13::get_occurrence_length, crate::stubs::occurrence_contract_monitor)]
#[kani::stub(mila::lz13::calculate_lz13_header, crate::stubs::lz13_header_stub)]
fn c10_window_edge() {
    let lz13: bool = kani::any();
    window_edge(lz13);
    kani::cover!(lz13);
    kani::cover!(!lz13);
}
