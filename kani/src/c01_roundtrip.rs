//! C01 / C02 — bin archive serialize -> parse, canonical and deterministic serialization.
//!
//! mila's parser fetches every header and table word through small heap buffers; CBMC keeps such
//! words constant only when the whole source buffer is constant, otherwise the parser's control flow
//! becomes symbolic and the query does not finish (DESIGN.md §2). These harnesses therefore drive
//! serialize / from_bytes on *concrete* toy archives (several per harness, chosen by the solver):
//! CBMC executes the real code, proves the absence of panics/overflow on those runs and decides the
//! content assertions; the layouts are checked against hand-assembled canonical images.
use crate::stubs::*;
use crate::util::*;
use mila::{BinArchive, Endian};

fn parse(bytes: &[u8], e: Endian) -> BinArchive {
    keep(BinArchive::from_bytes(bytes, e)).unwrap()
}

fn word(bytes: &[u8], at: usize, e: Endian) -> u32 {
    let b = [bytes[at], bytes[at + 1], bytes[at + 2], bytes[at + 3]];
    if is_little(e) { u32::from_le_bytes(b) } else { u32::from_be_bytes(b) }
}

/// Header totals exact, every table entry and string inside the file.
fn well_formed(img: &[u8], e: Endian, data_size: usize, pointers: usize, labels: usize) {
    assert!(img.len() >= 0x20, "C01: image shorter than a header");
    assert!(word(img, 0, e) as usize == img.len(), "C01: header file size must equal the image length");
    assert!(word(img, 4, e) as usize == data_size, "C01: header data size");
    assert!(word(img, 8, e) as usize == pointers, "C01: header pointer count");
    assert!(word(img, 12, e) as usize == labels, "C01: header label count");
    let text_start = 0x20 + data_size + 4 * pointers + 8 * labels;
    assert!(text_start <= img.len(), "C01: tables must fit in the file");
    for p in 0..4 {
        if p < pointers {
            let cell = word(img, 0x20 + data_size + 4 * p, e) as usize;
            assert!(cell + 4 <= data_size, "C01: pointer-table entry must address a cell inside the data");
        }
    }
    for l in 0..4 {
        if l < labels {
            let at = 0x20 + data_size + 4 * pointers + 8 * l;
            assert!(word(img, at, e) as usize <= data_size, "C01: label address must be <= data size");
            assert!(text_start + (word(img, at + 4, e) as usize) < img.len(), "C01: label name must lie inside the text section");
        }
    }
    if data_size % 4 == 0 {
        assert!((0x20 + data_size) % 4 == 0, "C01: tables must be word-aligned whenever the data is");
    }
}

fn label_at(a: &BinArchive, addr: usize, want: &[&str]) {
    let got = keep(a.read_labels(addr)).unwrap();
    match got {
        Some(v) => {
            assert!(v.len() == want.len(), "C01: number of labels on an address changed");
            for i in 0..want.len() {
                assert!(v[i] == want[i], "C01: labels of an address changed or were reordered");
            }
            std::mem::forget(v);
        }
        None => assert!(want.is_empty(), "C01: labels of an address were lost"),
    }
}

/// Arm A: little-endian, raw cell, string cell, label on a cell and on the end address.
fn arm_a(e: Endian) -> BinArchive {
    let mut a = BinArchive::new(e);
    a.allocate_at_end(8);
    keep(a.write_bytes(0, &[1, 2, 3, 4])).unwrap();
    keep(a.write_string(4, Some("AB"))).unwrap();
    keep(a.write_label(0, "L")).unwrap();
    keep(a.write_label(8, "E")).unwrap();
    a
}

fn check_a(b: &BinArchive) {
    assert!(b.size() == 8, "C01: size changed");
    assert!(keep(b.read_bytes(0, 4)).unwrap() == [1, 2, 3, 4], "C01: raw bytes changed");
    assert!(keep(b.read_string(4)).unwrap().as_deref() == Some("AB"), "C01: string changed");
    assert!(keep(b.read_string(0)).unwrap().is_none() && keep(b.read_pointer(0)).unwrap().is_none() && keep(b.read_pointer(4)).unwrap().is_none(), "C01: annotation invented");
    label_at(b, 0, &["L"]);
    label_at(b, 4, &[]);
    assert!(b.find_label_address("E") == Some(8), "C01: label on the end address lost");
}

// @tier quick
// @timeout 1800
// @mem 12
// @bounds concrete archive A (8 bytes: raw cell, string "AB", label on cell 0, label on the end address), little- and big-endian (solver-chosen)
// @unwindset extend_with=90
// @claims serialize -> from_bytes returns the same size, raw bytes, string and labels (end address included); the image is well-formed (header totals exact, tables inside the file, word-aligned)
// @assume encoding_rs encode/decode replaced by the 7-bit model (stubs.rs): strings are NUL-free ASCII
#[kani::proof]
#[kani::unwind(14)]
#[kani::stub(encoding_rs::Encoding::decode, crate::stubs::decode_ascii_model)]
#[kani::stub(encoding_rs::Encoding::encode, crate::stubs::encode_ascii_model)]
fn c01_roundtrip_string_and_labels() {
    let e = any_endian();
    let a = arm_a(e);
    let img = keep(a.serialize()).unwrap();
    well_formed(&img, e, 8, 1, 2);
    let b = parse(&img, e);
    check_a(&b);
    kani::cover!(is_little(e));
    kani::cover!(!is_little(e));
    std::mem::forget(a);
    std::mem::forget(b);
    std::mem::forget(img);
}

// @tier quick
// @timeout 1800
// @mem 12
// @bounds concrete archive B (10 bytes, not a multiple of 4: internal pointer 0 -> 10 = the end address, two labels "X","Y" on address 4, label on the unaligned address 9), little- and big-endian (solver-chosen)
// @unwindset extend_with=90
// @claims serialize -> from_bytes returns the same size (unaligned length), pointer, and the labels of an address in the same order; unaligned label addresses survive
// @assume encoding_rs encode/decode replaced by the 7-bit model (stubs.rs)
#[kani::proof]
#[kani::unwind(14)]
#[kani::stub(encoding_rs::Encoding::decode, crate::stubs::decode_ascii_model)]
#[kani::stub(encoding_rs::Encoding::encode, crate::stubs::encode_ascii_model)]
fn c01_roundtrip_pointer_and_label_order() {
    let e = any_endian();
    let mut a = BinArchive::new(e);
    a.allocate_at_end(10);
    keep(a.write_bytes(4, &[9, 8, 7, 6, 5, 4])).unwrap();
    keep(a.write_pointer(0, Some(10))).unwrap();
    keep(a.write_label(4, "X")).unwrap();
    keep(a.write_label(4, "Y")).unwrap();
    keep(a.write_label(9, "U")).unwrap();
    let img = keep(a.serialize()).unwrap();
    well_formed(&img, e, 10, 1, 3);
    let b = parse(&img, e);
    assert!(b.size() == 10, "C01: unaligned size changed");
    assert!(keep(b.read_pointer(0)).unwrap() == Some(10), "C01: pointer to the end address changed (or was taken for a string)");
    assert!(keep(b.read_string(0)).unwrap().is_none(), "C01: a pointer cell came back as a string");
    assert!(keep(b.read_bytes(4, 6)).unwrap() == [9, 8, 7, 6, 5, 4], "C01: raw bytes changed");
    label_at(&b, 4, &["X", "Y"]);
    assert!(b.find_label_address("U") == Some(9), "C01: label on an unaligned address lost or moved");
    kani::cover!(!is_little(e));
    std::mem::forget(a);
    std::mem::forget(b);
    std::mem::forget(img);
}

// @tier quick
// @timeout 1800
// @mem 12
// @bounds concrete archive C (8 bytes: string "S" on cell 0, c-string "C" on cell 4), little-endian; and archive D (12 bytes: the same string "T" on cells 0 and 8, c-string "C" on cell 4)
// @unwindset extend_with=90
// @claims strings and c-strings mixed: after serialize -> from_bytes every string cell still reads its string and every c-string cell reads its c-string through the appended pool; header totals include the pool
// @assume encoding_rs encode/decode replaced by the 7-bit model (stubs.rs)
#[kani::proof]
#[kani::unwind(14)]
#[kani::stub(encoding_rs::Encoding::decode, crate::stubs::decode_ascii_model)]
#[kani::stub(encoding_rs::Encoding::encode, crate::stubs::encode_ascii_model)]
fn c01_roundtrip_mixed_strings_and_c_strings() {
    let e = Endian::Little;
    let shared: bool = kani::any();
    let mut a = BinArchive::new(e);
    if shared {
        a.allocate_at_end(12);
        keep(a.write_string(0, Some("T"))).unwrap();
        keep(a.write_string(8, Some("T"))).unwrap();
    } else {
        a.allocate_at_end(8);
        keep(a.write_string(0, Some("S"))).unwrap();
    }
    keep(a.write_c_string(4, "C".to_string())).unwrap();
    let img = keep(a.serialize()).unwrap();
    // pool "C\0" padded to 4 bytes is appended to the data
    let data = if shared { 12 } else { 8 };
    well_formed(&img, e, data + 4, if shared { 3 } else { 2 }, 0);
    let b = parse(&img, e);
    assert!(b.size() == data + 4, "C01: data size must be the original data plus the padded c-string pool");
    assert!(keep(b.read_string(0)).unwrap().as_deref() == Some(if shared { "T" } else { "S" }), "C01: string next to a c-string changed (text section start must account for the pool)");
    if shared {
        assert!(keep(b.read_string(8)).unwrap().as_deref() == Some("T"), "C01: shared string changed");
    }
    assert!(keep(b.read_c_string(4)).unwrap().as_deref() == Some("C"), "C01: c-string changed");
    kani::cover!(shared);
    std::mem::forget(a);
    std::mem::forget(b);
    std::mem::forget(img);
}

/// Canonical little-endian image of archive A, assembled by hand from the format rules.
const IMAGE_A_LE: [u8; 67] = [
    67, 0, 0, 0, 8, 0, 0, 0, 1, 0, 0, 0, 2, 0, 0, 0, 0, 0, 0, 0, 0, 0, 0, 0, 0, 0, 0, 0, 0, 0, 0, 0, // header
    1, 2, 3, 4, 32, 0, 0, 0, // data: raw cell, string pointer = text start (28) + offset 4
    4, 0, 0, 0, // pointer table
    0, 0, 0, 0, 0, 0, 0, 0, 8, 0, 0, 0, 2, 0, 0, 0, // labels by address: (0,"L"@0) (8,"E"@2)
    0x4C, 0, 0x45, 0, 0x41, 0x42, 0, // text: L E AB
];

// @tier quick
// @timeout 1800
// @mem 12
// @bounds archive A, little-endian, against its hand-assembled canonical 67-byte image
// @unwindset extend_with=90
// @claims serialization is canonical: header totals, string pointer value, pointer table, labels ordered by address, text section = label names then strings; parsing the canonical image and re-serializing reproduces it byte for byte
// @assume encoding_rs encode/decode replaced by the 7-bit model (stubs.rs)
#[kani::proof]
#[kani::unwind(14)]
#[kani::stub(encoding_rs::Encoding::decode, crate::stubs::decode_ascii_model)]
#[kani::stub(encoding_rs::Encoding::encode, crate::stubs::encode_ascii_model)]
fn c02_canonical_image_le() {
    let reparse: bool = kani::any();
    let img = if reparse {
        let b = parse(&IMAGE_A_LE, Endian::Little);
        let img = keep(b.serialize()).unwrap();
        std::mem::forget(b);
        img
    } else {
        let a = arm_a(Endian::Little);
        let img = keep(a.serialize()).unwrap();
        std::mem::forget(a);
        img
    };
    assert!(img.len() == 67, "C02: canonical image length");
    let i: usize = kani::any();
    kani::assume(i < 67);
    assert!(img[i] == IMAGE_A_LE[i], "C02: serialized image differs from the canonical image");
    kani::cover!(reparse);
    std::mem::forget(img);
}

/// Canonical little-endian image of: 8 zero data bytes, label "A" on address 0 and on address 4
/// (the repeated name is stored once in the text section).
const IMAGE_REPEATED_LABEL_LE: [u8; 58] = [
    58, 0, 0, 0, 8, 0, 0, 0, 0, 0, 0, 0, 2, 0, 0, 0, 0, 0, 0, 0, 0, 0, 0, 0, 0, 0, 0, 0, 0, 0, 0, 0, // header
    0, 0, 0, 0, 0, 0, 0, 0, // data
    0, 0, 0, 0, 0, 0, 0, 0, 4, 0, 0, 0, 0, 0, 0, 0, // labels (0,"A"@0) (4,"A"@0)
    0x41, 0, // text: A
];

// @tier quick
// @timeout 1800
// @mem 12
// @bounds little-endian archive of 8 zero bytes with the same label name on addresses 0 and 4, against its hand-assembled canonical 58-byte image
// @unwindset extend_with=90
// @claims every distinct string (label names included) is stored once in the text section; header totals match the bytes; parsing the canonical image and re-serializing reproduces it
// @assume encoding_rs encode/decode replaced by the 7-bit model (stubs.rs)
#[kani::proof]
#[kani::unwind(14)]
#[kani::stub(encoding_rs::Encoding::decode, crate::stubs::decode_ascii_model)]
#[kani::stub(encoding_rs::Encoding::encode, crate::stubs::encode_ascii_model)]
fn c02_canonical_repeated_label() {
    let reparse: bool = kani::any();
    let img = if reparse {
        let b = parse(&IMAGE_REPEATED_LABEL_LE, Endian::Little);
        let img = keep(b.serialize()).unwrap();
        std::mem::forget(b);
        img
    } else {
        let mut a = BinArchive::new(Endian::Little);
        a.allocate_at_end(8);
        keep(a.write_label(0, "A")).unwrap();
        keep(a.write_label(4, "A")).unwrap();
        let img = keep(a.serialize()).unwrap();
        std::mem::forget(a);
        img
    };
    assert!(img.len() == 58, "C02: canonical image length (a repeated label name must be stored once)");
    let i: usize = kani::any();
    kani::assume(i < 58);
    assert!(img[i] == IMAGE_REPEATED_LABEL_LE[i], "C02: serialized image differs from the canonical image");
    kani::cover!(reparse);
    std::mem::forget(img);
}

/// Two labels with the same name on different addresses plus two strings, built in two call orders.
fn build_order(e: Endian, reversed: bool) -> BinArchive {
    let mut a = BinArchive::new(e);
    a.allocate_at_end(8);
    if reversed {
        keep(a.write_label(4, "x")).unwrap();
        keep(a.write_string(4, Some("B"))).unwrap();
        keep(a.write_string(0, Some("A"))).unwrap();
        keep(a.write_label(0, "x")).unwrap();
    } else {
        keep(a.write_label(0, "x")).unwrap();
        keep(a.write_string(0, Some("A"))).unwrap();
        keep(a.write_string(4, Some("B"))).unwrap();
        keep(a.write_label(4, "x")).unwrap();
    }
    a
}

// @tier quick
// @timeout 1800
// @mem 12
// @bounds two archives with equal content (strings on cells 0 and 4, the label name "x" on both addresses) built by opposite call orders, so the map model iterates them in opposite orders; little- and big-endian (solver-chosen)
// @unwindset extend_with=90
// @claims archives with equal content serialize to identical bytes whatever the order of the calls that built them / the iteration order of the hash maps (big-endian: equal label names must not fall back to map order)
// @assume encoding_rs encode replaced by the 7-bit model (stubs.rs); map iteration order = insertion order in the model, the two call orders stand for two hash states
#[kani::proof]
#[kani::unwind(14)]
#[kani::stub(encoding_rs::Encoding::encode, crate::stubs::encode_ascii_model)]
fn c02_order_independent() {
    let e = any_endian();
    let a1 = build_order(e, false);
    let a2 = build_order(e, true);
    let i1 = keep(a1.serialize()).unwrap();
    let i2 = keep(a2.serialize()).unwrap();
    assert!(i1.len() == i2.len(), "C02: equal content serialized to different lengths");
    let i: usize = kani::any();
    kani::assume(i < i1.len());
    assert!(i1[i] == i2[i], "C02: equal content serialized to different bytes depending on call / hash order");
    kani::cover!(!is_little(e));
    std::mem::forget(a1);
    std::mem::forget(a2);
    std::mem::forget(i1);
    std::mem::forget(i2);
}

// @tier quick
// @timeout 600
// @expect witness
// @bounds archive A little-endian
// @unwindset extend_with=90
// @claims vacuity witness for the C01/C02 harnesses (must FAIL at its final assert)
#[kani::proof]
#[kani::unwind(14)]
#[kani::stub(encoding_rs::Encoding::decode, crate::stubs::decode_ascii_model)]
#[kani::stub(encoding_rs::Encoding::encode, crate::stubs::encode_ascii_model)]
fn c01_witness() {
    let a = arm_a(Endian::Little);
    let img = keep(a.serialize()).unwrap();
    if img.len() == 67 {
        assert!(false, "VACUITY-WITNESS");
    }
    std::mem::forget(a);
    std::mem::forget(img);
}
