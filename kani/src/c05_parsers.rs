//! C05 — archive-family parsers are total on arbitrary bytes.
//!
//! Staged (DESIGN.md §4 C05): buffers have a concrete length per harness arm (a symbolic length
//! makes every heap copy symbolic-length, which CBMC cannot carry), all *content* is symbolic, so
//! every header and table field takes every value. CBMC proves: no panic, no arithmetic overflow
//! (hence checked and wrapping builds agree), termination within the unwinding bounds, and the
//! allocation probe (largest single buffer requested) stays within a small multiple of the input.
use crate::stubs::*;
use crate::util::*;
use mila::verif_support::{max_alloc_request, reset_alloc_probe};
use mila::{AssetBinary, BinArchive, Endian, TextArchive, TextArchiveFormat};

fn alloc_bound_ok(input_len: usize) -> bool {
    max_alloc_request() <= 4 * input_len + 64
}

// @tier quick
// @timeout 600
// @bounds buffers shorter than the 0x20-byte header: lengths 0, 5 and 31 filled with 0x5A and length 16 filled with zeros (solver-chosen arm); both endiannesses
// @unwindset from_bytes=2,extend_with=2,read_shift_jis_impl=2,read_utf_16_impl=2,from_archive=2
// @claims BinArchive::from_bytes / TextArchive::from_bytes on a buffer shorter than a header: error, no panic, nothing allocated
// @assume encoding_rs decode replaced by the 7-bit model (stubs.rs)
#[kani::proof]
#[kani::unwind(6)]
#[kani::stub(encoding_rs::Encoding::decode, crate::stubs::decode_ascii_model)]
fn c05_bin_archive_short_buffer() {
    let buf = [0x5Au8; 31];
    let zero = [0u8; 31];
    let sel: u8 = kani::any();
    kani::assume(sel < 4);
    reset_alloc_probe();
    let e = any_endian();
    let (r, t) = if sel == 0 {
        (keep(BinArchive::from_bytes(&buf[..0], e)), keep(TextArchive::from_bytes(&buf[..0], TextArchiveFormat::ShiftJIS, e)))
    } else if sel == 1 {
        (keep(BinArchive::from_bytes(&buf[..5], e)), keep(TextArchive::from_bytes(&buf[..5], TextArchiveFormat::Unicode, e)))
    } else if sel == 2 {
        (keep(BinArchive::from_bytes(&buf[..31], e)), keep(TextArchive::from_bytes(&buf[..31], TextArchiveFormat::ShiftJIS, e)))
    } else {
        (keep(BinArchive::from_bytes(&zero[..16], e)), keep(TextArchive::from_bytes(&zero[..16], TextArchiveFormat::Unicode, e)))
    };
    assert!(r.is_none(), "C05: a buffer shorter than the archive header must be rejected");
    assert!(t.is_none(), "C05: text archive: a buffer shorter than the archive header must be rejected");
    assert!(max_alloc_request() == 0, "C05: nothing may be allocated for a buffer shorter than a header");
    kani::cover!(sel == 2);
    kani::cover!(sel == 3);
    std::mem::forget(r);
    std::mem::forget(t);
}

fn header_word(buf: &[u8], i: usize, e: Endian) -> u64 {
    let b = [buf[i], buf[i + 1], buf[i + 2], buf[i + 3]];
    (if is_little(e) { u32::from_le_bytes(b) } else { u32::from_be_bytes(b) }) as u64
}

fn put_word(buf: &mut [u8], i: usize, v: u32, e: Endian) {
    let b = if is_little(e) { v.to_le_bytes() } else { v.to_be_bytes() };
    for k in 0..4 {
        buf[i + k] = b[k];
    }
}

/// A fully concrete little/big-endian image: header with the given section sizes, `tail` after it.
/// (mila reads header words through heap buffers; CBMC only keeps them constant when the whole source
/// buffer is constant, so the header-field corner cases are planted as concrete values.)
fn concrete_image<const LEN: usize>(data_size: u32, pointers: u32, labels: u32, tail: &[u8], e: Endian) -> [u8; LEN] {
    let mut buf = [0u8; LEN];
    put_word(&mut buf, 0, LEN as u32, e);
    put_word(&mut buf, 4, data_size, e);
    put_word(&mut buf, 8, pointers, e);
    put_word(&mut buf, 12, labels, e);
    for i in 0..tail.len() {
        buf[0x20 + i] = tail[i];
    }
    buf
}

fn parse_checked<const LEN: usize>(buf: &[u8; LEN], e: Endian, must_reject: bool) -> Option<BinArchive> {
    reset_alloc_probe();
    let r = keep(BinArchive::from_bytes(buf, e));
    assert!(alloc_bound_ok(LEN), "C05: from_bytes requested a buffer far larger than its input on the strength of a header field");
    if must_reject {
        assert!(r.is_none(), "C05: a header or table entry declaring more than the buffer holds must be rejected");
    }
    r
}

// @tier quick
// @timeout 900
// @mem 12
// @bounds concrete 0x20-byte headers with section sizes (data, pointers, labels) in {(0,0,0), (0,0x40000000,0), (0xFFFFFFFC,1,0), (0,0,0x20000000), (0x80000000,0x20000000,0), (4,0,0), (0,1,0)}; little- and big-endian per arm
// @claims BinArchive::from_bytes on bare headers with boundary values planted in every section-size field, including values whose 32-bit sum or products wrap: Ok only for the empty archive; no panic or arithmetic overflow (so checked and wrapping builds agree); no buffer larger than the input requested
// @assume encoding_rs decode replaced by the 7-bit model (stubs.rs)
#[kani::proof]
#[kani::unwind(6)]
#[kani::stub(encoding_rs::Encoding::decode, crate::stubs::decode_ascii_model)]
fn c05_bin_archive_header_corner_cases() {
    let sel: u8 = kani::any();
    kani::assume(sel < 8);
    if sel == 0 {
        let r = parse_checked(&concrete_image::<0x20>(0, 0, 0, &[], Endian::Little), Endian::Little, false);
        assert!(matches!(&r, Some(a) if a.size() == 0), "C05: a bare header with empty sections is the empty archive");
        std::mem::forget(r);
    }
    if sel == 1 { std::mem::forget(parse_checked(&concrete_image::<0x20>(0, 0x4000_0000, 0, &[], Endian::Little), Endian::Little, true)); }
    if sel == 2 { std::mem::forget(parse_checked(&concrete_image::<0x20>(0xFFFF_FFFC, 1, 0, &[], Endian::Big), Endian::Big, true)); }
    if sel == 3 { std::mem::forget(parse_checked(&concrete_image::<0x20>(0, 0, 0x2000_0000, &[], Endian::Little), Endian::Little, true)); }
    if sel == 4 { std::mem::forget(parse_checked(&concrete_image::<0x20>(0x8000_0000, 0x2000_0000, 0, &[], Endian::Big), Endian::Big, true)); }
    if sel == 5 { std::mem::forget(parse_checked(&concrete_image::<0x20>(4, 0, 0, &[], Endian::Little), Endian::Little, true)); }
    if sel == 6 { std::mem::forget(parse_checked(&concrete_image::<0x20>(0, 1, 0, &[], Endian::Big), Endian::Big, true)); }
    if sel == 7 { std::mem::forget(parse_checked(&concrete_image::<0x20>(0xFFFF_FFFF, 0xFFFF_FFFF, 0xFFFF_FFFF, &[], Endian::Little), Endian::Little, true)); }
    kani::cover!(sel == 7);
}

// @tier quick
// @timeout 1800
// @mem 12
// @bounds concrete small images: one data word; a pointer entry addressing outside the data (4 and 0xFFFFFFFF); an internal pointer; a string pointer to missing text
// @claims BinArchive::from_bytes per-entry validation at planted boundary values: entries that leave the data or the file are errors, well-formed ones parse to the expected annotation; never a panic/overflow
// @assume encoding_rs decode replaced by the 7-bit model (stubs.rs)
#[kani::proof]
#[kani::unwind(16)]
#[kani::stub(encoding_rs::Encoding::decode, crate::stubs::decode_ascii_model)]
fn c05_bin_archive_entry_corner_cases() {
    let le = Endian::Little;
    let sel: u8 = kani::any();
    kani::assume(sel < 5);
    if sel == 0 {
        let r = parse_checked(&concrete_image::<0x24>(4, 0, 0, &[1, 2, 3, 4], le), le, false);
        assert!(matches!(&r, Some(a) if a.size() == 4 && keep(a.read_u32(0)).unwrap() == 0x04030201), "C05: header + one data word");
        std::mem::forget(r);
    }
    // pointer entry = 4 (outside the 4-byte data)
    if sel == 1 { std::mem::forget(parse_checked(&concrete_image::<0x28>(4, 1, 0, &[0, 0, 0, 0, 4, 0, 0, 0], le), le, true)); }
    // pointer entry = 0xFFFFFFFF
    if sel == 2 { std::mem::forget(parse_checked(&concrete_image::<0x28>(4, 1, 0, &[0, 0, 0, 0, 0xFF, 0xFF, 0xFF, 0xFF], le), le, true)); }
    if sel == 3 {
        let r = parse_checked(&concrete_image::<0x28>(4, 1, 0, &[4, 0, 0, 0, 0, 0, 0, 0], le), le, false);
        assert!(matches!(&r, Some(a) if keep(a.read_pointer(0)).unwrap() == Some(4)), "C05: an in-range pointer entry is an internal pointer");
        std::mem::forget(r);
    }
    // string pointer whose text is outside the file
    if sel == 4 { std::mem::forget(parse_checked(&concrete_image::<0x28>(4, 1, 0, &[0xFF, 0xFF, 0xFF, 0x7F, 0, 0, 0, 0], le), le, true)); }
    kani::cover!(sel == 4);
}

// @tier quick
// @timeout 1800
// @mem 12
// @bounds concrete small images: a string pointer to terminated text; a label with its name in the text section (on the end address), beyond the end address, and with an unterminated name
// @claims BinArchive::from_bytes string and label entries at planted boundary values: well-formed ones parse to the expected annotation, the others are errors; never a panic/overflow
// @assume encoding_rs decode replaced by the 7-bit model (stubs.rs)
#[kani::proof]
#[kani::unwind(16)]
#[kani::stub(encoding_rs::Encoding::decode, crate::stubs::decode_ascii_model)]
fn c05_bin_archive_text_entry_corner_cases() {
    let le = Endian::Little;
    let sel: u8 = kani::any();
    kani::assume(sel >= 5 && sel < 9);
    if sel == 5 {
        // string pointer (value 8 = text start) to "A\0"
        let r = parse_checked(&concrete_image::<0x2A>(4, 1, 0, &[8, 0, 0, 0, 0, 0, 0, 0, b'A', 0], le), le, false);
        assert!(matches!(&r, Some(a) if keep(a.read_string(0)).unwrap().as_deref() == Some("A")), "C05: a string pointer resolves to its NUL-terminated text");
        std::mem::forget(r);
    }
    if sel == 6 {
        // label (address 4 = end, name offset 0 -> "L\0")
        let r = parse_checked(&concrete_image::<0x2E>(4, 0, 1, &[0, 0, 0, 0, 4, 0, 0, 0, 0, 0, 0, 0, b'L', 0], le), le, false);
        assert!(r.is_some(), "C05: a label at the end address with a terminated name is accepted");
        std::mem::forget(r);
    }
    // label beyond the end address
    if sel == 7 { std::mem::forget(parse_checked(&concrete_image::<0x2E>(4, 0, 1, &[0, 0, 0, 0, 5, 0, 0, 0, 0, 0, 0, 0, b'L', 0], le), le, true)); }
    // label name unterminated / offset outside the text
    if sel == 8 { std::mem::forget(parse_checked(&concrete_image::<0x2E>(4, 0, 1, &[0, 0, 0, 0, 0, 0, 0, 0, 1, 0, 0, 0, b'L', b'M'], le), le, true)); }
    kani::cover!(sel == 8);
}


fn pack_image<const LEN: usize>(magic: u32, count: u16, name_addr: u32, file_addr: u32, file_size: u32, tail: &[u8]) -> [u8; LEN] {
    let mut buf = [0u8; LEN];
    let m = magic.to_be_bytes();
    for k in 0..4 {
        if k < LEN { buf[k] = m[k]; }
    }
    if LEN >= 6 {
        buf[4] = (count >> 8) as u8;
        buf[5] = count as u8;
    }
    if LEN >= 24 {
        let words = [name_addr, file_addr, file_size];
        for w in 0..3 {
            let b = words[w].to_be_bytes();
            for k in 0..4 {
                buf[12 + 4 * w + k] = b[k];
            }
        }
        for i in 0..tail.len() {
            buf[24 + i] = tail[i];
        }
    }
    buf
}

fn pack_checked<const LEN: usize>(buf: &[u8; LEN], must_reject: bool) -> bool {
    reset_alloc_probe();
    let r = keep(mila::fe9_arc::parse(buf));
    assert!(alloc_bound_ok(LEN), "C05: fe9_arc::parse requested a buffer far larger than its input on the strength of an entry's size field");
    if must_reject {
        assert!(r.is_none(), "C05: pack data with a wrong magic number, truncated tables or entries that leave the buffer must be rejected");
    }
    let ok = r.is_some();
    std::mem::forget(r);
    ok
}

// @tier quick
// @timeout 900
// @mem 12
// @bounds concrete pack images: empty buffer; 5 bytes; wrong magic; count 0; count 1 without entry record; count 0xFFFF with one record (solver-chosen arm)
// @claims fe9_arc::parse on truncated or mislabelled headers: an error (never a panic: a wrong magic number included), the empty archive parses to no files
// @assume encoding_rs decode replaced by the 7-bit model (stubs.rs)
#[kani::proof]
#[kani::unwind(30)]
#[kani::stub(encoding_rs::Encoding::decode, crate::stubs::decode_ascii_model)]
fn c05_pack_header_corner_cases() {
    const MAGIC: u32 = 0x7061636B;
    let sel: u8 = kani::any();
    kani::assume(sel < 6);
    if sel == 0 { pack_checked(&pack_image::<0>(MAGIC, 0, 0, 0, 0, &[]), true); }
    if sel == 1 { pack_checked(&pack_image::<5>(MAGIC, 0, 0, 0, 0, &[]), true); }
    if sel == 2 { pack_checked(&pack_image::<8>(0x7061636A, 0, 0, 0, 0, &[]), true); }
    if sel == 3 { assert!(pack_checked(&pack_image::<8>(MAGIC, 0, 0, 0, 0, &[]), false), "C05: a well-formed empty pack archive parses"); }
    if sel == 4 { pack_checked(&pack_image::<8>(MAGIC, 1, 0, 0, 0, &[]), true); }
    if sel == 5 { pack_checked(&pack_image::<24>(MAGIC, 0xFFFF, 24, 24, 0, &[]), true); }
    kani::cover!(sel == 5);
}

// @tier quick
// @timeout 900
// @mem 12
// @bounds concrete pack images with one entry record: file size 0xFFFFFFFF; file address beyond the buffer; name address beyond the buffer; unterminated name; a well-formed 1-byte file (solver-chosen arm)
// @claims fe9_arc::parse per-entry validation at planted boundary values: ranges that leave the buffer are errors and no giant buffer is requested on the strength of the size field; the well-formed entry parses
// @assume encoding_rs decode replaced by the 7-bit model (stubs.rs)
#[kani::proof]
#[kani::unwind(30)]
#[kani::stub(encoding_rs::Encoding::decode, crate::stubs::decode_ascii_model)]
fn c05_pack_entry_corner_cases() {
    const MAGIC: u32 = 0x7061636B;
    let sel: u8 = kani::any();
    kani::assume(sel < 5);
    if sel == 0 { pack_checked(&pack_image::<27>(MAGIC, 1, 24, 26, 0xFFFF_FFFF, &[b'a', 0, 7]), true); }
    if sel == 1 { pack_checked(&pack_image::<27>(MAGIC, 1, 24, 0x8000_0000, 1, &[b'a', 0, 7]), true); }
    if sel == 2 { pack_checked(&pack_image::<27>(MAGIC, 1, 0xFFFF_FFF0, 26, 1, &[b'a', 0, 7]), true); }
    if sel == 3 { pack_checked(&pack_image::<27>(MAGIC, 1, 25, 26, 1, &[b'a', b'b', 7]), true); }
    if sel == 4 { assert!(pack_checked(&pack_image::<27>(MAGIC, 1, 24, 26, 1, &[b'a', 0, 7]), false), "C05: a well-formed one-file pack archive parses"); }
    kani::cover!(sel == 4);
}

/// Small archive built through the API with concrete bytes (readers fetch flag words from the heap;
/// CBMC keeps them constant only when the data is constant).
fn concrete_archive(bytes: &[u8]) -> BinArchive {
    let mut a = BinArchive::new(Endian::Little);
    a.allocate_at_end(bytes.len());
    // byte-wise stores at constant indices stay constant for CBMC; a bulk copy would not
    for i in 0..bytes.len() {
        keep(a.write_u8(i, bytes[i])).unwrap();
    }
    a
}

// @tier offline
// @offline not registered: needs > 40 GB / did not terminate in the trial runs (readers over heap-backed archives, DESIGN.md §2)
// @timeout 3600
// @mem 40
// @bounds text-archive walk over concrete archives: empty; "hi\0\0" with and without key label; unterminated "abcd"; UTF-16 "A\0\0\0"; odd-length data (5 bytes) (solver-chosen arm); both formats
// @claims TextArchive::from_archive terminates with Ok or Err (unterminated or unaligned text is an error), never a panic; an accepted archive re-serializes without panic
// @assume encoding_rs encode/decode replaced by the 7-bit model (stubs.rs); lossless-ness of the real codec is not claimed here
#[kani::proof]
#[kani::unwind(14)]
#[kani::stub(encoding_rs::Encoding::decode, crate::stubs::decode_ascii_model)]
#[kani::stub(encoding_rs::Encoding::encode, crate::stubs::encode_ascii_model)]
fn c05_text_archive_walk() {
    // one call per arm with a literal argument: inside text_walk everything is concrete
    let sel: u8 = kani::any();
    kani::assume(sel < 4);
    if sel == 0 { text_walk(0); }
    if sel == 1 { text_walk(1); }
    if sel == 2 { text_walk(2); }
    if sel == 3 { text_walk(3); }
    kani::cover!(sel == 1);
}

fn text_walk(sel: u8) {
    let unicode = sel == 4 || sel == 6;
    let format = if unicode { TextArchiveFormat::Unicode } else { TextArchiveFormat::ShiftJIS };
    let mut a = match sel {
        0 => concrete_archive(&[]),
        1 | 2 => concrete_archive(&[b'h', b'i', 0, 0]),
        3 => concrete_archive(&[b'a', b'b', b'c', b'd']),
        4 => concrete_archive(&[0, 0, 0, 0, b'A', 0, 0, 0]),
        5 => concrete_archive(&[b'x', 0, 0, 0, b'y']),
        _ => concrete_archive(&[0, 0, 0, 0, b'A', 0, b'B', 0, b'C']),
    };
    if sel == 1 {
        keep(a.write_label(0, "K")).unwrap();
    }
    if sel == 4 {
        keep(a.write_label(4, "K")).unwrap();
    }
    let t = keep(TextArchive::from_archive(&a, format, Endian::Little));
    if sel == 3 || sel == 5 || sel == 6 {
        assert!(t.is_none(), "C05: unterminated or unaligned text must be rejected");
    }
    if sel == 1 {
        assert!(matches!(&t, Some(x) if x.get_message("K").as_deref() == Some("hi")), "C05: a labelled message is read back under its key");
        if let Some(t) = &t {
            let s = keep(t.serialize());
            assert!(s.is_some(), "C05: an accepted archive must re-serialize");
            std::mem::forget(s);
        }
    }
    if sel == 4 {
        assert!(t.is_some(), "C05: a terminated UTF-16 message is accepted");
    }
    std::mem::forget(t);
    std::mem::forget(a);
}

// @tier offline
// @offline not registered: needs > 40 GB / did not terminate in the trial runs (readers over heap-backed archives, DESIGN.md §2)
// @timeout 3600
// @mem 40
// @bounds text-archive walk over concrete archives: UTF-16 "A\\0\\0\\0" with key label; 5 bytes of Shift-JIS data (unaligned tail); 9 bytes of UTF-16 data ending inside a code unit (solver-chosen arm)
// @claims as c05_text_archive_walk: data that ends inside a message or a code unit is an error, never a panic
// @assume encoding_rs encode/decode replaced by the 7-bit model (stubs.rs)
#[kani::proof]
#[kani::unwind(14)]
#[kani::stub(encoding_rs::Encoding::decode, crate::stubs::decode_ascii_model)]
#[kani::stub(encoding_rs::Encoding::encode, crate::stubs::encode_ascii_model)]
fn c05_text_archive_walk_b() {
    let sel: u8 = kani::any();
    kani::assume(sel >= 4 && sel < 7);
    if sel == 4 { text_walk(4); }
    if sel == 5 { text_walk(5); }
    if sel == 6 { text_walk(6); }
    kani::cover!(sel == 6);
}

// @tier offline
// @offline not registered: needs > 40 GB / did not terminate in the trial runs (readers over heap-backed archives, DESIGN.md §2)
// @timeout 3600
// @mem 40
// @bounds asset-binary and animation-set readers over the empty archive; animation-set reader over small archives with and without the table label (solver-chosen arm)
// @claims AssetBinary::from_archive and ASetFile::from_archive terminate with Ok or Err on malformed small archives (missing flags word, truncated records, missing label, table running past the end), never a panic
#[kani::proof]
#[kani::unwind(14)]
fn c05_asset_and_aset_readers() {
    let sel: u8 = kani::any();
    kani::assume(sel < 3);
    if sel == 0 {
        let a = concrete_archive(&[]);
        assert!(keep(AssetBinary::from_archive(&a)).is_none(), "C05: an asset binary without even the flags word must be rejected");
        assert!(keep(mila::ASetFile::from_archive(&a)).is_none(), "C05: an empty animation-set archive must be rejected");
        std::mem::forget(a);
    }
    if sel == 1 {
        let mut a = concrete_archive(&[4, 0, 0, 0, 0, 0, 0, 0, 0, 1, 0, 0]);
        keep(a.write_label(12, "AnimClipNameTable")).unwrap();
        assert!(keep(mila::ASetFile::from_archive(&a)).is_none(), "C05: a clip table running past the end must be rejected");
        std::mem::forget(a);
    }
    if sel == 2 {
        let a = concrete_archive(&[4, 0, 0, 0, 0, 0, 0, 0]);
        assert!(keep(mila::ASetFile::from_archive(&a)).is_none(), "C05: an animation-set archive without the table label must be rejected");
        std::mem::forget(a);
    }
    kani::cover!(sel == 1);
}

// @tier offline
// @offline not registered: needs > 40 GB / did not terminate in the trial runs (readers over heap-backed archives, DESIGN.md §2)
// @timeout 3600
// @mem 40
// @bounds asset-binary reader over concrete archives: 4 zero bytes; flags + a short record announcing more strings than the data holds; flags + an extended-form record cut short (solver-chosen arm)
// @claims AssetBinary::from_archive ends the spec list at the first malformed or truncated record and returns Ok, never a panic
#[kani::proof]
#[kani::unwind(14)]
fn c05_asset_binary_reader() {
    let sel: u8 = kani::any();
    kani::assume(sel < 3);
    if sel == 0 {
        let a = concrete_archive(&[0, 0, 0, 0]);
        let r = keep(AssetBinary::from_archive(&a));
        assert!(matches!(&r, Some(b) if b.specs.is_empty()), "C05: flags word only: no specs");
        std::mem::forget(r);
        std::mem::forget(a);
    }
    if sel == 1 {
        let a = concrete_archive(&[1, 0, 0, 0, 0xFE, 0xFF, 0xFF, 0xFF, 0, 0, 0, 0]);
        let r = keep(AssetBinary::from_archive(&a));
        assert!(matches!(&r, Some(b) if b.specs.is_empty()), "C05: a record announcing more strings than the data holds is dropped, not a panic");
        std::mem::forget(r);
        std::mem::forget(a);
    }
    if sel == 2 {
        let a = concrete_archive(&[1, 0, 0, 0, 0x01, 0, 0, 0, 0xFF, 0xFF, 0xFF]);
        let r = keep(AssetBinary::from_archive(&a));
        assert!(r.is_some(), "C05: a truncated extended record ends the list, not a panic");
        std::mem::forget(r);
        std::mem::forget(a);
    }
    kani::cover!(sel == 2);
}

// @tier quick
// @timeout 900
// @mem 12
// @bounds the NUL-terminated string readers of the byte cursor over concrete data: UTF-16 data ending inside a code unit, UTF-16 data ending on a unit boundary without terminator, unterminated Shift-JIS data, a terminated UTF-16 string (solver-chosen arm)
// @claims the string readers shared by every archive-family parser return UnterminatedString (never panic) when the data ends before the terminator, also in the middle of a UTF-16 code unit; a terminated string is read
// @assume encoding_rs decode replaced by the 7-bit model (stubs.rs)
#[kani::proof]
#[kani::unwind(14)]
#[kani::stub(encoding_rs::Encoding::decode, crate::stubs::decode_ascii_model)]
fn c05_string_readers() {
    use mila::EncodedStringReader;
    let sel: u8 = kani::any();
    kani::assume(sel < 4);
    if sel == 0 {
        let data: [u8; 5] = [b'A', 0, b'B', 0, b'C'];
        let mut c = std::io::Cursor::new(&data[..]);
        assert!(keep(c.read_utf_16_string()).is_none(), "C05: UTF-16 data that ends inside a code unit must be an error, not a panic");
    }
    if sel == 1 {
        let data: [u8; 4] = [b'A', 0, b'B', 0];
        let mut c = std::io::Cursor::new(&data[..]);
        assert!(keep(c.read_utf_16_string()).is_none(), "C05: unterminated UTF-16 data must be an error");
    }
    if sel == 2 {
        let data: [u8; 4] = [b'a', b'b', b'c', b'd'];
        let mut c = std::io::Cursor::new(&data[..]);
        assert!(keep(c.read_shift_jis_string()).is_none(), "C05: unterminated Shift-JIS text must be an error");
    }
    if sel == 3 {
        let data: [u8; 6] = [b'A', 0, 0, 0, 9, 9];
        let mut c = std::io::Cursor::new(&data[..]);
        let s = keep(c.read_utf_16_string());
        assert!(matches!(&s, Some(x) if x == "A"), "C05: a terminated UTF-16 string is read");
        std::mem::forget(s);
    }
    kani::cover!(sel == 3);
}

// @tier offline
// @offline not registered: needs > 40 GB / did not terminate in the trial runs (readers over heap-backed archives, DESIGN.md §2)
// @timeout 3600
// @mem 40
// @bounds the string readers of the archive reader over small concrete archives: UTF-16 data ending inside a code unit, unterminated Shift-JIS data, a terminated UTF-16 string (solver-chosen arm)
// @claims as c05_string_readers through BinArchiveReader; after a string the reader re-aligns to the next 4-byte boundary
// @assume encoding_rs decode replaced by the 7-bit model (stubs.rs)
#[kani::proof]
#[kani::unwind(14)]
#[kani::stub(encoding_rs::Encoding::decode, crate::stubs::decode_ascii_model)]
fn c05_archive_string_readers() {
    use mila::{BinArchiveReader, EncodedStringReader};
    let sel: u8 = kani::any();
    kani::assume(sel < 3);
    if sel == 0 {
        let a = concrete_archive(&[0, 0, 0, 0, b'A', 0, b'B', 0, b'C']);
        let mut r = BinArchiveReader::new(&a, 4);
        assert!(keep(r.read_utf_16_string()).is_none(), "C05: UTF-16 data that ends inside a code unit must be an error, not a panic");
        std::mem::forget(a);
    }
    if sel == 1 {
        let a = concrete_archive(&[b'a', b'b', b'c', b'd']);
        let mut r = BinArchiveReader::new(&a, 0);
        assert!(keep(r.read_shift_jis_string()).is_none(), "C05: unterminated Shift-JIS text must be an error");
        std::mem::forget(a);
    }
    if sel == 2 {
        let a = concrete_archive(&[b'A', 0, 0, 0, 9, 9, 9, 9]);
        let mut r = BinArchiveReader::new(&a, 0);
        let s = keep(r.read_utf_16_string());
        assert!(matches!(&s, Some(x) if x == "A"), "C05: a terminated UTF-16 string is read");
        assert!(r.tell() == 4, "C05: the archive reader re-aligns to the next 4-byte boundary after a string");
        std::mem::forget(s);
        std::mem::forget(a);
    }
    kani::cover!(sel == 2);
}

// @tier quick
// @timeout 300
// @expect witness
// @bounds as c05_bin_archive_header_only with an all-zero header
// @claims vacuity witness for the C05 harnesses (must FAIL at its final assert)
#[kani::proof]
#[kani::unwind(10)]
#[kani::stub(encoding_rs::Encoding::decode, crate::stubs::decode_ascii_model)]
fn c05_witness() {
    let buf = [0u8; 0x20];
    let r = keep(BinArchive::from_bytes(&buf, Endian::Little));
    if r.is_some() {
        assert!(false, "VACUITY-WITNESS");
    }
    std::mem::forget(r);
}
