//! Shared helpers for the harnesses.
use mila::{BinArchive, Endian};

pub const MAXSZ: usize = 8;

pub fn any_endian() -> Endian {
    if kani::any() {
        Endian::Little
    } else {
        Endian::Big
    }
}

pub fn is_little(e: Endian) -> bool {
    matches!(e, Endian::Little)
}

/// An archive with a symbolic size in 0..=max (max <= MAXSZ) and symbolic content.
pub fn any_archive(max: usize, endian: Endian) -> (BinArchive, usize, [u8; MAXSZ]) {
    let size: usize = kani::any();
    kani::assume(size <= max && max <= MAXSZ);
    let content: [u8; MAXSZ] = kani::any();
    let mut a = BinArchive::new(endian);
    a.allocate_at_end(size);
    for i in 0..MAXSZ {
        if i < size {
            keep(a.write_u8(i, content[i]));
        }
    }
    (a, size, content)
}

/// Bytes of the archive as seen through the public API (cells beyond `size` read as 0).
pub fn snapshot(a: &BinArchive) -> [u8; MAXSZ] {
    let mut out = [0u8; MAXSZ];
    let size = a.size();
    for i in 0..MAXSZ {
        if i < size {
            out[i] = keep(a.read_u8(i)).unwrap();
        }
    }
    out
}

/// `start..start+width` lies inside `0..size` and is non-empty, evaluated without overflow.
pub fn in_range(start: usize, width: usize, size: usize) -> bool {
    width >= 1 && start < size && size - start >= width
}

/// Turn a `Result` into an `Option` without running the error's drop glue: `std::io::Error`'s
/// bit-packed representation makes its drop glue (dyn Error, recursive) very expensive to unroll.
pub fn keep<T, E>(r: Result<T, E>) -> Option<T> {
    match r {
        Ok(v) => Some(v),
        Err(e) => {
            std::mem::forget(e);
            None
        }
    }
}

/// Set by replay unit tests (run_check.py): the harness runs natively, `#[kani::stub]`s are not applied.
/// (tagged: see the note on monitor statics in stubs.rs)
static mut PLAYBACK: (u32, bool) = (0x706C_6179, false);

pub fn set_playback(on: bool) {
    unsafe {
        PLAYBACK.1 = on;
    }
}

pub fn is_playback() -> bool {
    unsafe { PLAYBACK.1 }
}

// ---------------------------------------------------------------------------------------------
// Native allocation probe (replay of `// @alloclimit` harnesses)
// ---------------------------------------------------------------------------------------------
// Under CBMC the limit is asserted inside the allocator model (run_check.py links a copy of
// kani_lib.c with the assertion). A native replay has no such model: the replay tests are built
// with cfg(test), where this pass-through global allocator records the largest single request.

#[cfg(test)]
mod native_alloc {
    use std::alloc::{GlobalAlloc, Layout, System};
    use std::sync::atomic::{AtomicUsize, Ordering};

    pub static MAX_REQUEST: AtomicUsize = AtomicUsize::new(0);

    pub struct Probe;

    unsafe impl GlobalAlloc for Probe {
        unsafe fn alloc(&self, layout: Layout) -> *mut u8 {
            MAX_REQUEST.fetch_max(layout.size(), Ordering::Relaxed);
            System.alloc(layout)
        }
        unsafe fn alloc_zeroed(&self, layout: Layout) -> *mut u8 {
            MAX_REQUEST.fetch_max(layout.size(), Ordering::Relaxed);
            System.alloc_zeroed(layout)
        }
        unsafe fn realloc(&self, ptr: *mut u8, layout: Layout, new_size: usize) -> *mut u8 {
            MAX_REQUEST.fetch_max(new_size, Ordering::Relaxed);
            System.realloc(ptr, layout, new_size)
        }
        unsafe fn dealloc(&self, ptr: *mut u8, layout: Layout) {
            System.dealloc(ptr, layout)
        }
    }

    #[global_allocator]
    static PROBE: Probe = Probe;
}

/// Replay only: forget the allocation requests seen so far.
#[cfg(test)]
pub fn native_alloc_reset() {
    native_alloc::MAX_REQUEST.store(0, std::sync::atomic::Ordering::Relaxed);
}

#[cfg(not(test))]
pub fn native_alloc_reset() {}

/// Replay only: largest single allocation request since `native_alloc_reset` (0 under Kani).
#[cfg(test)]
pub fn native_alloc_max() -> usize {
    native_alloc::MAX_REQUEST.load(std::sync::atomic::Ordering::Relaxed)
}

#[cfg(not(test))]
pub fn native_alloc_max() -> usize {
    0
}
