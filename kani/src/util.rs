//! Shared helpers for the harnesses.
use mila::{BinArchive, Endian};

pub const MAXSZ: usize = 8;

pub fn any_endian() -> Endian {
    if kani::any() {
        Endian::Little
    } else {
        Endian::Big
    }
}

pub fn is_little(e: Endian) -> bool {
    matches!(e, Endian::Little)
}

/// An archive with a symbolic size in 0..=max (max <= MAXSZ) and symbolic content.
pub fn any_archive(max: usize, endian: Endian) -> (BinArchive, usize, [u8; MAXSZ]) {
    let size: usize = kani::any();
    kani::assume(size <= max && max <= MAXSZ);
    let content: [u8; MAXSZ] = kani::any();
    let mut a = BinArchive::new(endian);
    a.allocate_at_end(size);
    for i in 0..MAXSZ {
        if i < size {
            keep(a.write_u8(i, content[i]));
        }
    }
    (a, size, content)
}

/// Bytes of the archive as seen through the public API (cells beyond `size` read as 0).
pub fn snapshot(a: &BinArchive) -> [u8; MAXSZ] {
    let mut out = [0u8; MAXSZ];
    let size = a.size();
    for i in 0..MAXSZ {
        if i < size {
            out[i] = keep(a.read_u8(i)).unwrap();
        }
    }
    out
}

/// `start..start+width` lies inside `0..size` and is non-empty, evaluated without overflow.
pub fn in_range(start: usize, width: usize, size: usize) -> bool {
    width >= 1 && start < size && size - start >= width
}

/// Turn a `Result` into an `Option` without running the error's drop glue: `std::io::Error`'s
/// bit-packed representation makes its drop glue (dyn Error, recursive) very expensive to unroll.
pub fn keep<T, E>(r: Result<T, E>) -> Option<T> {
    match r {
        Ok(v) => Some(v),
        Err(e) => {
            std::mem::forget(e);
            None
        }
    }
}

/// Set by replay unit tests (run_check.py): the harness runs natively, `#[kani::stub]`s are not applied.
/// (tagged: see the note on monitor statics in stubs.rs)
static mut PLAYBACK: (u32, bool) = (0x706C_6179, false);

pub fn set_playback(on: bool) {
    unsafe {
        PLAYBACK.1 = on;
    }
}

pub fn is_playback() -> bool {
    unsafe { PLAYBACK.1 }
}
