//! Kani proof harnesses over the real mila crate (path dependency on /repo, built with
//! `--cfg mila_verif`). One module per property; harness names start with the property id.
//! The `// @key value` comment block above each harness is read by /verif/run_check.py.
#![allow(dead_code)]
#![allow(unused_imports)]

#[cfg(kani)]
mod util;
#[cfg(kani)]
mod stubs;

#[cfg(kani)]
mod smoke;
#[cfg(kani)]
mod c04_access;
#[cfg(kani)]
mod c19_pixels;
#[cfg(kani)]
mod c03_kernels;
