//! Kani proof harnesses over the real mila crate (path dependency on /repo, built with
//! `--cfg mila_verif`). One module per property; harness names start with the property id.
//! The `// @key value` comment block above each harness is read by /verif/run_check.py.
#![allow(dead_code)]
#![allow(unused_imports)]

#[cfg(kani)]
mod util;
#[cfg(kani)]
mod stubs;

#[cfg(kani)]
mod smoke;
#[cfg(kani)]
mod c04_access;
#[cfg(kani)]
mod c20_textures;
#[cfg(kani)]
mod c15_containers;
#[cfg(kani)]
mod c06_text;
#[cfg(kani)]
mod c06_images;
#[cfg(kani)]
mod c15_images;
#[cfg(kani)]
mod c16_images;
#[cfg(kani)]
mod c01_images;
#[cfg(kani)]
mod c03_ops;
#[cfg(kani)]
mod c18_asset;
#[cfg(kani)]
mod c14_localize;
#[cfg(kani)]
mod c05_parsers;
#[cfg(kani)]
mod lz_compress;
#[cfg(kani)]
mod c11_decompress;
#[cfg(kani)]
mod c11_family;
#[cfg(kani)]
mod c19_pixels;
#[cfg(kani)]
mod c03_kernels;
