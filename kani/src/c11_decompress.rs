//! C11 — decompression is correct on every conforming stream and errors on the rest.
//!
//! Two layers.
//! * wrapper harnesses: mila's own code (type dispatch, wrapper stripping, stored form, error
//!   mapping) for every input of <= 6 bytes, with the dependency `nintendo_lz::decompress_arr`
//!   replaced by a recorder that tells the harness which slice it was given;
//! * structure-indexed family: the real decoder (dependency included) on streams whose token
//!   structure is fixed per harness arm while literal bytes and displacements are symbolic,
//!   compared against a reference expander written here.
use crate::stubs::*;
use crate::util::*;
use mila::{CompressionFormat, LZ10CompressionFormat, LZ13CompressionFormat};

fn sym_input() -> ([u8; 6], usize) {
    let data: [u8; 6] = kani::any();
    let len: usize = kani::any();
    kani::assume(len <= 6);
    (data, len)
}

// @tier quick
// @timeout 600
// @bounds every input of 0..=6 bytes (symbolic length and content); dependency replaced by a recorder returning Ok or Err as the solver chooses
// @claims LZ13 decompress: never panics (empty and shorter-than-header input is an error); type 0 returns the bytes after the 4-byte header; 0x13 strips exactly the 4-byte wrapper before decoding; any other first byte is handed to the decoder unchanged; a decoder error becomes an error
// @assume nintendo_lz::decompress_arr stubbed by stubs::decompress_arr_recorder in this harness only
#[kani::proof]
#[kani::unwind(10)]
#[kani::stub(nintendo_lz::decompress_arr, crate::stubs::decompress_arr_recorder)]
fn c11_lz13_wrapper() {
    let (data, len) = sym_input();
    let dep_ok: bool = kani::any();
    unsafe {
        LZ.returns_ok = dep_ok;
    }
    let r = keep(LZ13CompressionFormat {}.decompress(&data[..len]));
    let calls = unsafe { LZ.calls };
    let arg_len = unsafe { LZ.arg_len };
    let first = unsafe { LZ.arg_first };
    if len < 4 {
        // no complete header: an error, unless the (stubbed) decoder was asked and said Ok
        if calls == 0 {
            assert!(r.is_none(), "C11: input shorter than a header must be an error");
        } else {
            assert!(calls == 1 && arg_len == len && data[0] != 0 && data[0] != 0x13, "C11: a short input may only be forwarded to the decoder unchanged");
            assert!(r.is_some() == dep_ok, "C11: decoder result must be passed through (Err -> Err)");
        }
    } else if data[0] == 0 {
        assert!(calls == 0, "C11: the stored form must not be sent to the LZ decoder");
        let out = r.unwrap();
        assert!(out.len() == len - 4, "C11: stored form must return exactly the bytes after the 4-byte header");
        for i in 0..2 {
            if i < out.len() {
                assert!(out[i] == data[4 + i], "C11: stored form content");
            }
        }
        std::mem::forget(out);
        return;
    } else if data[0] == 0x13 {
        assert!(calls == 1 && arg_len == len - 4, "C11: the 0x13 wrapper must be stripped by exactly 4 bytes");
        for i in 0..2 {
            if i < arg_len {
                assert!(first[i] == data[4 + i], "C11: decoder must receive the bytes after the wrapper");
            }
        }
        assert!(r.is_some() == dep_ok, "C11: decoder result must be passed through (Err -> Err)");
    } else {
        assert!(calls == 1 && arg_len == len, "C11: a bare LZ10/LZ11 stream must reach the decoder unchanged");
        for i in 0..6 {
            if i < len {
                assert!(first[i] == data[i], "C11: decoder must receive the stream unchanged");
            }
        }
        assert!(r.is_some() == dep_ok, "C11: decoder result must be passed through (Err -> Err)");
    }
    kani::cover!(len == 0);
    kani::cover!(len == 3 && data[0] == 0x13);
    kani::cover!(len == 6 && data[0] == 0x13 && dep_ok);
    kani::cover!(len == 5 && data[0] == 0x11 && !dep_ok);
    std::mem::forget(r);
}

// @tier quick
// @timeout 600
// @bounds every input of 0..=6 bytes; dependency replaced by the recorder; both formats of CompressionFormat
// @claims LZ10 decompress and CompressionFormat dispatch: never panic; LZ10 hands the whole input to the decoder and maps its error; the enum dispatches to the matching format
// @assume nintendo_lz::decompress_arr stubbed by stubs::decompress_arr_recorder in this harness only
#[kani::proof]
#[kani::unwind(10)]
#[kani::stub(nintendo_lz::decompress_arr, crate::stubs::decompress_arr_recorder)]
fn c11_lz10_wrapper_and_dispatch() {
    let (data, len) = sym_input();
    let dep_ok: bool = kani::any();
    unsafe {
        LZ.returns_ok = dep_ok;
    }
    let via_enum: bool = kani::any();
    let r = if via_enum {
        keep(CompressionFormat::LZ10(LZ10CompressionFormat {}).decompress(&data[..len]))
    } else {
        keep(LZ10CompressionFormat {}.decompress(&data[..len]))
    };
    assert!(unsafe { LZ.calls } == 1 && unsafe { LZ.arg_len } == len, "C11: LZ10 decompress must hand the whole input to the decoder");
    assert!(r.is_some() == dep_ok, "C11: LZ10 decoder result must be passed through (Err -> Err)");
    std::mem::forget(r);
    // enum dispatch to LZ13: same observable behaviour as the direct call on a wrapped stream
    if len >= 4 && data[0] == 0x13 {
        unsafe {
            LZ.calls = 0;
        }
        let r13 = keep(CompressionFormat::LZ13(LZ13CompressionFormat {}).decompress(&data[..len]));
        assert!(unsafe { LZ.calls } == 1 && unsafe { LZ.arg_len } == len - 4, "C11: CompressionFormat::LZ13 must behave as LZ13CompressionFormat (wrapper stripped)");
        assert!(r13.is_some() == dep_ok);
        std::mem::forget(r13);
    }
    kani::cover!(via_enum && len == 0);
    kani::cover!(len == 6 && data[0] == 0x13);
}

// @tier quick
// @timeout 600
// @bounds the 4-byte header 10 00 00 00 and the wrapped header 13 00 00 00 10 00 00 00 (solver-chosen arm)
// @claims real decoder on a header announcing length 0: empty output, bare and behind the 0x13 wrapper
#[kani::proof]
#[kani::unwind(10)]
fn c11_real_decoder_empty_streams() {
    let wrapped: bool = kani::any();
    if wrapped {
        let r = keep(LZ13CompressionFormat {}.decompress(&[0x13, 0, 0, 0, 0x10, 0, 0, 0]));
        assert!(matches!(&r, Some(v) if v.is_empty()), "C11: a wrapped empty LZ10 stream expands to nothing");
        std::mem::forget(r);
    } else {
        let r = keep(LZ10CompressionFormat {}.decompress(&[0x10, 0, 0, 0]));
        assert!(matches!(&r, Some(v) if v.is_empty()), "C11: an LZ10 stream of declared length 0 expands to nothing");
        std::mem::forget(r);
    }
    kani::cover!(wrapped);
}

// @tier offline
// @offline not registered: the solver reached the 24 GB cap after 11 minutes in the trial run (error paths inside nintendo_lz, DESIGN.md §2)
// @timeout 2400
// @mem 24
// @bounds real decoder on the 4-byte header 12 01 00 00 (unknown type)
// @claims an unknown type byte is an error from the real decoder, never a panic
#[kani::proof]
#[kani::unwind(10)]
fn c11_real_decoder_unknown_type() {
    let r = keep(LZ13CompressionFormat {}.decompress(&[0x12, 1, 0, 0]));
    assert!(r.is_none(), "C11: an unknown type byte must be an error");
    std::mem::forget(r);
}

// ---------------------------------------------------------------------------------------------
// Structure-indexed family against the real decoder (functions generated in c11_family.rs)
// ---------------------------------------------------------------------------------------------
use crate::c11_family::*;

// @tier quick
// @timeout 900
// @bounds LZ10 streams with token structure in {L, L R3, LL R3, L R4 L} (one per solver-chosen arm); literal bytes symbolic; every legal displacement (1..=bytes produced, overlapping copies and displacement 1 included)
// @claims real decoder (nintendo_lz through mila) on well-formed LZ10 streams: output equals the reference expansion, for all payloads and displacements of each listed structure
#[kani::proof]
#[kani::unwind(22)]
fn c11_family_lz10_a() {
    let sel: u8 = kani::any();
    if sel == 0 { fam_lz10_l(); }
    if sel == 1 { fam_lz10_l_r3(); }
    if sel == 2 { fam_lz10_ll_r3(); }
    if sel == 3 { fam_lz10_l_r4_l(); }
    kani::cover!(sel == 3);
}

// @tier quick
// @timeout 900
// @bounds LZ10 streams with token structure in {LLL R18, L R3 R4, LL R3 L R18}, and {L R3} inside the 0x13 wrapper; literal bytes symbolic; every legal displacement
// @claims as c11_family_lz10_a: maximal LZ10 length 18, consecutive references, reference after reference output, bare LZ10 behind the 0x13 wrapper
#[kani::proof]
#[kani::unwind(22)]
fn c11_family_lz10_b() {
    let sel: u8 = kani::any();
    if sel == 0 { fam_lz10_lll_r18(); }
    if sel == 1 { fam_lz10_l_r3_r4(); }
    if sel == 2 { fam_lz10_ll_r3_l_r18(); }
    if sel == 3 { fam_lz10w_l_r3(); }
    kani::cover!(sel == 2);
}

// @tier quick
// @timeout 900
// @bounds LZ11 streams (bare and inside the 0x13 wrapper) with token structure in {L R3, LL R16, L R17, L R16 R17, LL R3 L, 9 literals + R3 (two flag groups)}; literal bytes symbolic; every legal displacement
// @claims real decoder on well-formed LZ11 streams in the short (<=16) and the 17..272 length forms, through the LZ13 entry point with and without wrapper, across a flag-group boundary: output equals the reference expansion
#[kani::proof]
#[kani::unwind(22)]
fn c11_family_lz11_short_forms() {
    let sel: u8 = kani::any();
    if sel == 0 { fam_lz11w_l_r3(); }
    if sel == 1 { fam_lz11_ll_r16(); }
    if sel == 2 { fam_lz11w_l_r17(); }
    if sel == 3 { fam_lz11w_l_r16_r17(); }
    if sel == 4 { fam_lz11_ll_r3_l(); }
    if sel == 5 { fam_lz11w_9_literals_r3(); }
    kani::cover!(sel == 3);
    kani::cover!(sel == 5);
}

// @tier thorough
// @timeout 2400
// @mem 12
// @bounds LZ11 streams in the 0x13 wrapper with token structure {L R272} and {LL R273} (the boundary between the three-byte and four-byte length forms); literal bytes symbolic; every legal displacement
// @claims real decoder on the LZ11 length-form boundaries 272 / 273: output equals the reference expansion
#[kani::proof]
#[kani::unwind(280)]
fn c11_family_lz11_long_forms() {
    let sel: u8 = kani::any();
    if sel == 0 { fam_lz11w_l_r272(); }
    if sel == 1 { fam_lz11w_ll_r273(); }
    kani::cover!(sel == 1);
}

// @tier quick
// @timeout 600
// @bounds LZ10 stream "L R3" and wrapped LZ11 stream "L R17" whose displacement reaches 1..=16 bytes before the start of the output (symbolic)
// @claims a back-reference before the start of the output yields an error, never a panic
#[kani::proof]
#[kani::unwind(22)]
fn c11_backref_before_start() {
    let lz11: bool = kani::any();
    let lit: u8 = kani::any();
    let extra: usize = kani::any();
    kani::assume(extra >= 1 && extra <= 16);
    let d = extra as u8; // disp - 1, with disp = 1 + extra > bytes produced (1); high nibble of the field is 0
    let r = if !lz11 {
        let s = [0x10u8, 4, 0, 0, 0x40, lit, 0x00, d];
        keep(LZ10CompressionFormat {}.decompress(&s))
    } else {
        let s = [0x13u8, 0, 0, 0, 0x11, 18, 0, 0, 0x40, lit, 0x00, 0x00, d];
        keep(LZ13CompressionFormat {}.decompress(&s))
    };
    assert!(r.is_none(), "C11: a reference before the start of the output must be an error");
    std::mem::forget(r);
}

// @tier offline
// @offline not registered: the solver reached the 24 GB cap after 11 minutes in the trial run (error paths inside nintendo_lz, DESIGN.md §2)
// @timeout 2400
// @mem 24
// @bounds LZ10 stream "L R3" cut one byte short (literal byte symbolic)
// @claims a truncated stream yields an error from the real decoder, never a panic
#[kani::proof]
#[kani::unwind(22)]
fn c11_truncated_lz10() {
    let lit: u8 = kani::any();
    let s = [0x10u8, 4, 0, 0, 0x40, lit, 0x00];
    let r = keep(LZ10CompressionFormat {}.decompress(&s));
    assert!(r.is_none(), "C11: a truncated stream must be an error");
    std::mem::forget(r);
}

// @tier quick
// @timeout 300
// @expect witness
// @bounds LZ10 structure L R3
// @claims vacuity witness for the C11 family harnesses (must FAIL at its final assert)
#[kani::proof]
#[kani::unwind(22)]
fn c11_witness() {
    let lit: u8 = kani::any();
    let s = [0x10u8, 4, 0, 0, 0x40, lit, 0, 0];
    let out = keep(LZ10CompressionFormat {}.decompress(&s)).unwrap();
    if out.len() == 4 && out[3] == lit {
        assert!(false, "VACUITY-WITNESS");
    }
    std::mem::forget(out);
}
