//! C15 / C16 — GameCube/Wii pack archive (build -> parse identity, aligned layout) and 3DS arc
//! extraction. Container structure (counts, names, sizes, offsets) is concrete per harness arm:
//! the parsers take their control flow from words inside the image, and CBMC only keeps those
//! constant when the image is constant. File *contents* stay symbolic where they do not pass
//! through a heap image first (C16 bodies are written through the archive API).
use crate::stubs::*;
use crate::util::*;
use mila::verif_support::IndexMap;
use mila::{BinArchive, Endian};

fn be32(img: &[u8], at: usize) -> usize {
    ((img[at] as usize) << 24) | ((img[at + 1] as usize) << 16) | ((img[at + 2] as usize) << 8) | img[at + 3] as usize
}

/// Reference reader of the pack layout: count, per-entry name / file offsets, 32-byte alignment.
fn pack_layout_ok(img: &[u8], names: &[&str], sizes: &[usize]) {
    assert!(img.len() >= 8 && be32(img, 0) == 0x7061636B, "C15: pack image must start with the magic number");
    let count = ((img[4] as usize) << 8) | img[5] as usize;
    assert!(count == names.len(), "C15: header count must equal the number of files");
    for i in 0..4 {
        if i < names.len() {
            let rec = 8 + 16 * i;
            let name_at = be32(img, rec + 4);
            let file_at = be32(img, rec + 8);
            let size = be32(img, rec + 12);
            assert!(size == sizes[i], "C15: recorded file size must be exact");
            assert!(file_at % 32 == 0, "C15: every file must start on a 32-byte boundary");
            assert!(file_at + size <= img.len(), "C15: recorded file range must lie inside the image");
            let nb = names[i].as_bytes();
            for k in 0..12 {
                if k < nb.len() {
                    assert!(img[name_at + k] == nb[k], "C15: recorded name offset must point at the name");
                }
            }
            assert!(img[name_at + nb.len()] == 0, "C15: names are NUL-terminated");
        }
    }
}

fn check_pack(names: &[&str], contents: &[&[u8]]) {
    let mut m: IndexMap<String, Vec<u8>> = IndexMap::new();
    let mut sizes = [0usize; 4];
    for i in 0..names.len() {
        m.insert(names[i].to_string(), contents[i].to_vec());
        sizes[i] = contents[i].len();
    }
    let img = keep(mila::fe9_arc::serialize(&m)).unwrap();
    pack_layout_ok(&img, names, &sizes[..names.len()]);
    let back = keep(mila::fe9_arc::parse(&img)).unwrap();
    assert!(back.len() == names.len(), "C15: parse must return as many files as were packed");
    for i in 0..4 {
        if i < names.len() {
            let (k, v) = back.get_index(i).unwrap();
            assert!(k == names[i], "C15: names must come back in the same order");
            assert!(v.len() == contents[i].len(), "C15: file length changed");
            for j in 0..40 {
                if j < contents[i].len() {
                    assert!(v[j] == contents[i][j], "C15: file content changed");
                }
            }
        }
    }
    std::mem::forget(back);
    std::mem::forget(img);
    std::mem::forget(m);
}

const F33: [u8; 33] = [1, 2, 3, 4, 5, 6, 7, 8, 9, 10, 11, 12, 13, 14, 15, 16, 17, 18, 19, 20, 21, 22, 23, 24, 25, 26, 27, 28, 29, 30, 31, 32, 33];

// @tier quick
// @timeout 1200
// @mem 12
// @bounds a hand-built conforming image whose file bodies come before the name table and in reverse order (2 files, unaligned placement)
// @claims the parser extracts the same files from any conforming image regardless of where names and file bodies are placed
// @assume encoding_rs decode replaced by the 7-bit model (stubs.rs)
#[kani::proof]
#[kani::unwind(42)]
#[kani::stub(encoding_rs::Encoding::decode, crate::stubs::decode_ascii_model)]
fn c15_parse_rearranged_image() {
    // header(8) + 2 records(32) = 40; body of "y" at 40..42, body of "x" at 42..45, names at 45 ("x\0") and 47 ("y\0")
    let mut img = [0u8; 49];
    img[0] = 0x70; img[1] = 0x61; img[2] = 0x63; img[3] = 0x6B;
    img[5] = 2;
    let recs: [(u32, u32, u32); 2] = [(45, 42, 3), (47, 40, 2)];
    for i in 0..2 {
        let (n, f, s) = recs[i];
        let base = 8 + 16 * i;
        let words = [n, f, s];
        for w in 0..3 {
            let b = words[w].to_be_bytes();
            for k in 0..4 {
                img[base + 4 + 4 * w + k] = b[k];
            }
        }
    }
    img[40] = 0xB1; img[41] = 0xB2;
    img[42] = 0xA1; img[43] = 0xA2; img[44] = 0xA3;
    img[45] = b'x'; img[47] = b'y';
    let back = keep(mila::fe9_arc::parse(&img)).unwrap();
    assert!(back.len() == 2, "C15: two records, two files");
    let (k0, v0) = back.get_index(0).unwrap();
    let (k1, v1) = back.get_index(1).unwrap();
    assert!(k0 == "x" && v0.len() == 3 && v0[0] == 0xA1 && v0[2] == 0xA3, "C15: first record must yield its own name and bytes wherever they are placed");
    assert!(k1 == "y" && v1.len() == 2 && v1[0] == 0xB1 && v1[1] == 0xB2, "C15: second record must yield its own name and bytes wherever they are placed");
    std::mem::forget(back);
}

// ---------------------------------------------------------------------------------------------
// C16
// ---------------------------------------------------------------------------------------------

// @tier quick
// @timeout 600
// @expect witness
// @bounds the one-file pack archive
// @claims vacuity witness for the C15/C16 harnesses (must FAIL at its final assert)
#[kani::proof]
#[kani::unwind(42)]
#[kani::stub(encoding_rs::Encoding::decode, crate::stubs::decode_ascii_model)]
#[kani::stub(encoding_rs::Encoding::encode, crate::stubs::encode_ascii_model)]
fn c15_witness() {
    check_pack(&["a"], &[&[7]]);
    assert!(false, "VACUITY-WITNESS");
}
