//! C15 / C16 — GameCube/Wii pack archive (build -> parse identity, aligned layout) and 3DS arc
//! extraction. Container structure (counts, names, sizes, offsets) is concrete per harness arm:
//! the parsers take their control flow from words inside the image, and CBMC only keeps those
//! constant when the image is constant. File *contents* stay symbolic where they do not pass
//! through a heap image first (C16 bodies are written through the archive API).
use crate::stubs::*;
use crate::util::*;
use mila::verif_support::IndexMap;
use mila::{BinArchive, Endian};

fn be32(img: &[u8], at: usize) -> usize {
    ((img[at] as usize) << 24) | ((img[at + 1] as usize) << 16) | ((img[at + 2] as usize) << 8) | img[at + 3] as usize
}

/// Reference reader of the pack layout: count, per-entry name / file offsets, 32-byte alignment.
fn pack_layout_ok(img: &[u8], names: &[&str], sizes: &[usize]) {
    assert!(img.len() >= 8 && be32(img, 0) == 0x7061636B, "C15: pack image must start with the magic number");
    let count = ((img[4] as usize) << 8) | img[5] as usize;
    assert!(count == names.len(), "C15: header count must equal the number of files");
    for i in 0..4 {
        if i < names.len() {
            let rec = 8 + 16 * i;
            let name_at = be32(img, rec + 4);
            let file_at = be32(img, rec + 8);
            let size = be32(img, rec + 12);
            assert!(size == sizes[i], "C15: recorded file size must be exact");
            assert!(file_at % 32 == 0, "C15: every file must start on a 32-byte boundary");
            assert!(file_at + size <= img.len(), "C15: recorded file range must lie inside the image");
            let nb = names[i].as_bytes();
            for k in 0..12 {
                if k < nb.len() {
                    assert!(img[name_at + k] == nb[k], "C15: recorded name offset must point at the name");
                }
            }
            assert!(img[name_at + nb.len()] == 0, "C15: names are NUL-terminated");
        }
    }
}

fn check_pack(names: &[&str], contents: &[&[u8]]) {
    let mut m: IndexMap<String, Vec<u8>> = IndexMap::new();
    let mut sizes = [0usize; 4];
    for i in 0..names.len() {
        m.insert(names[i].to_string(), contents[i].to_vec());
        sizes[i] = contents[i].len();
    }
    let img = keep(mila::fe9_arc::serialize(&m)).unwrap();
    pack_layout_ok(&img, names, &sizes[..names.len()]);
    let back = keep(mila::fe9_arc::parse(&img)).unwrap();
    assert!(back.len() == names.len(), "C15: parse must return as many files as were packed");
    for i in 0..4 {
        if i < names.len() {
            let (k, v) = back.get_index(i).unwrap();
            assert!(k == names[i], "C15: names must come back in the same order");
            assert!(v.len() == contents[i].len(), "C15: file length changed");
            for j in 0..40 {
                if j < contents[i].len() {
                    assert!(v[j] == contents[i][j], "C15: file content changed");
                }
            }
        }
    }
    std::mem::forget(back);
    std::mem::forget(img);
    std::mem::forget(m);
}

const F33: [u8; 33] = [1, 2, 3, 4, 5, 6, 7, 8, 9, 10, 11, 12, 13, 14, 15, 16, 17, 18, 19, 20, 21, 22, 23, 24, 25, 26, 27, 28, 29, 30, 31, 32, 33];

// @tier quick
// @timeout 1800
// @mem 12
// @bounds concrete pack archives: empty; one file "a" of 1 byte; files "a" (2 bytes) and "b" (empty); files "ab" (33 bytes, crosses the 32-byte padding) and "c" (32 bytes) (solver-chosen arm)
// @claims build -> parse is the identity (names in order, contents, empty files, empty archive); header count, recorded name and file offsets/sizes exact; every file starts on a 32-byte boundary
// @assume encoding_rs encode/decode replaced by the 7-bit model (stubs.rs): ASCII names
#[kani::proof]
#[kani::unwind(42)]
#[kani::stub(encoding_rs::Encoding::decode, crate::stubs::decode_ascii_model)]
#[kani::stub(encoding_rs::Encoding::encode, crate::stubs::encode_ascii_model)]
fn c15_build_parse_identity() {
    let sel: u8 = kani::any();
    kani::assume(sel < 4);
    if sel == 0 { check_pack(&[], &[]); }
    if sel == 1 { check_pack(&["a"], &[&[7]]); }
    if sel == 2 { check_pack(&["a", "b"], &[&[7, 8], &[]]); }
    if sel == 3 { check_pack(&["ab", "c"], &[&F33, &F33[..32]]); }
    kani::cover!(sel == 3);
}

// @tier quick
// @timeout 1800
// @mem 12
// @bounds concrete pack archives whose header + name table ends exactly on / one byte before the 32-byte boundary: one file with a 7-byte name, one with an 8-byte name, two files with names of 11 and 12 bytes (solver-chosen arm)
// @claims as c15_build_parse_identity when the name table needs no padding or exactly fills a block: names stay NUL-terminated and distinct from the first file body
// @assume encoding_rs encode/decode replaced by the 7-bit model (stubs.rs): ASCII names
#[kani::proof]
#[kani::unwind(42)]
#[kani::stub(encoding_rs::Encoding::decode, crate::stubs::decode_ascii_model)]
#[kani::stub(encoding_rs::Encoding::encode, crate::stubs::encode_ascii_model)]
fn c15_name_table_on_padding_boundary() {
    let sel: u8 = kani::any();
    kani::assume(sel < 3);
    if sel == 0 { check_pack(&["ABCDEFG"], &[&[1, 2, 3]]); }
    if sel == 1 { check_pack(&["ABCDEFGH"], &[&[1, 2, 3]]); }
    if sel == 2 { check_pack(&["ABCDEFGHIJK", "LMNOPQRSTUVW"], &[&[9], &[]]); }
    kani::cover!(sel == 2);
}

// @tier quick
// @timeout 1200
// @mem 12
// @bounds a hand-built conforming image whose file bodies come before the name table and in reverse order (2 files, unaligned placement)
// @claims the parser extracts the same files from any conforming image regardless of where names and file bodies are placed
// @assume encoding_rs decode replaced by the 7-bit model (stubs.rs)
#[kani::proof]
#[kani::unwind(42)]
#[kani::stub(encoding_rs::Encoding::decode, crate::stubs::decode_ascii_model)]
fn c15_parse_rearranged_image() {
    // header(8) + 2 records(32) = 40; body of "y" at 40..42, body of "x" at 42..45, names at 45 ("x\0") and 47 ("y\0")
    let mut img = [0u8; 49];
    img[0] = 0x70; img[1] = 0x61; img[2] = 0x63; img[3] = 0x6B;
    img[5] = 2;
    let recs: [(u32, u32, u32); 2] = [(45, 42, 3), (47, 40, 2)];
    for i in 0..2 {
        let (n, f, s) = recs[i];
        let base = 8 + 16 * i;
        let words = [n, f, s];
        for w in 0..3 {
            let b = words[w].to_be_bytes();
            for k in 0..4 {
                img[base + 4 + 4 * w + k] = b[k];
            }
        }
    }
    img[40] = 0xB1; img[41] = 0xB2;
    img[42] = 0xA1; img[43] = 0xA2; img[44] = 0xA3;
    img[45] = b'x'; img[47] = b'y';
    let back = keep(mila::fe9_arc::parse(&img)).unwrap();
    assert!(back.len() == 2, "C15: two records, two files");
    let (k0, v0) = back.get_index(0).unwrap();
    let (k1, v1) = back.get_index(1).unwrap();
    assert!(k0 == "x" && v0.len() == 3 && v0[0] == 0xA1 && v0[2] == 0xA3, "C15: first record must yield its own name and bytes wherever they are placed");
    assert!(k1 == "y" && v1.len() == 2 && v1[0] == 0xB1 && v1[1] == 0xB2, "C15: second record must yield its own name and bytes wherever they are placed");
    std::mem::forget(back);
}

// ---------------------------------------------------------------------------------------------
// C16
// ---------------------------------------------------------------------------------------------

/// Builds an arc image through the bin-archive API. `padded`: 0x60 zero bytes first, offsets relative
/// to their end. Records are (name, index, size, offset); bodies are written at base+offset.
fn arc_image(padded: bool, count_label: bool, info_label: bool, records: &[(Option<&str>, u32, u32)], bodies: &[&[u8]], count: u32) -> Vec<u8> {
    let base = if padded { 0x60 } else { 0 };
    let mut body_total = 0;
    for b in bodies {
        body_total += (b.len() + 3) / 4 * 4;
    }
    let count_at = base + body_total + if padded { 0 } else { 4 };
    let info_at = count_at + 4;
    let size = info_at + 16 * records.len();
    let mut a = BinArchive::new(Endian::Little);
    a.allocate_at_end(size);
    if !padded {
        keep(a.write_u32(0, 0xFFFF_FFFF)).unwrap(); // non-zero first word: no header padding
    }
    let mut at = base + if padded { 0 } else { 4 };
    for b in bodies {
        if !b.is_empty() {
            keep(a.write_bytes(at, b)).unwrap();
        }
        at += (b.len() + 3) / 4 * 4;
    }
    keep(a.write_u32(count_at, count)).unwrap();
    if count_label {
        keep(a.write_label(count_at, "Count")).unwrap();
    }
    if info_label {
        keep(a.write_label(info_at, "Info")).unwrap();
    }
    for i in 0..records.len() {
        let (name, size, offset) = records[i];
        let r = info_at + 16 * i;
        if let Some(n) = name {
            keep(a.write_string(r, Some(n))).unwrap();
        }
        keep(a.write_u32(r + 4, i as u32)).unwrap();
        keep(a.write_u32(r + 8, size)).unwrap();
        keep(a.write_u32(r + 12, offset)).unwrap();
    }
    let img = keep(a.serialize()).unwrap();
    std::mem::forget(a);
    img
}

// @tier quick
// @timeout 2400
// @mem 16
// @bounds concrete arc images without the padded header: one record ("f", 3 bytes); two records ("f": 2 bytes, "g": empty and recorded exactly at the end of the data region) (solver-chosen arm)
// @claims extraction returns one entry per record, keyed by its name, whose bytes are exactly the recorded range (unaligned and empty lengths, any body placement)
// @assume encoding_rs encode/decode replaced by the 7-bit model (stubs.rs)
#[kani::proof]
#[kani::unwind(40)]
#[kani::stub(encoding_rs::Encoding::decode, crate::stubs::decode_ascii_model)]
#[kani::stub(encoding_rs::Encoding::encode, crate::stubs::encode_ascii_model)]
fn c16_extract_unpadded() {
    let two: bool = kani::any();
    if two {
        // bodies: f's 2 bytes at offset 4; g is empty and recorded at the end of the data (offset 44 = size)
        let img = arc_image(false, true, true, &[(Some("f"), 2, 4), (Some("g"), 0, 44)], &[&[0xC1, 0xC2]], 2);
        let files = keep(mila::arc::from_bytes(&img)).unwrap();
        assert!(files.len() == 2, "C16: one entry per record");
        let f = files.get("f").unwrap();
        assert!(f.len() == 2 && f[0] == 0xC1 && f[1] == 0xC2, "C16: entry bytes must be exactly the recorded range");
        assert!(files.get("g").unwrap().is_empty(), "C16: an empty record yields an empty entry");
        std::mem::forget(files);
        std::mem::forget(img);
    } else {
        let img = arc_image(false, true, true, &[(Some("f"), 3, 4)], &[&[0xA1, 0xA2, 0xA3]], 1);
        let files = keep(mila::arc::from_bytes(&img)).unwrap();
        assert!(files.len() == 1, "C16: one entry per record");
        let f = files.get("f").unwrap();
        assert!(f.len() == 3 && f[0] == 0xA1 && f[1] == 0xA2 && f[2] == 0xA3, "C16: entry bytes must be exactly the recorded range (unaligned length)");
        std::mem::forget(files);
        std::mem::forget(img);
    }
    kani::cover!(two);
}

// @tier quick
// @timeout 2400
// @mem 16
// @bounds malformed arc images: no Count label; no Info label; a record without a name; a record whose range leaves the data region; a record offset that overflows 32 bits when the padded header is added (solver-chosen arm)
// @claims an image lacking either label, a record without a name, or a record whose range leaves the data region is an error, never a panic
// @assume encoding_rs encode/decode replaced by the 7-bit model (stubs.rs)
#[kani::proof]
#[kani::unwind(130)]
#[kani::stub(encoding_rs::Encoding::decode, crate::stubs::decode_ascii_model)]
#[kani::stub(encoding_rs::Encoding::encode, crate::stubs::encode_ascii_model)]
fn c16_malformed_images() {
    let sel: u8 = kani::any();
    kani::assume(sel < 5);
    let img = match sel {
        0 => arc_image(false, false, true, &[(Some("f"), 1, 4)], &[&[1]], 1),
        1 => arc_image(false, true, false, &[(Some("f"), 1, 4)], &[&[1]], 1),
        2 => arc_image(false, true, true, &[(None, 1, 4)], &[&[1]], 1),
        3 => arc_image(false, true, true, &[(Some("f"), 200, 4)], &[&[1]], 1),
        _ => arc_image(true, true, true, &[(Some("f"), 1, 0xFFFF_FFF0)], &[&[1]], 1),
    };
    let r = keep(mila::arc::from_bytes(&img));
    assert!(r.is_none(), "C16: a malformed arc image must be reported as an error");
    kani::cover!(sel == 4);
    std::mem::forget(r);
    std::mem::forget(img);
}

// @tier thorough
// @timeout 3600
// @mem 24
// @bounds a concrete arc image with the 0x60-byte zero header: one record ("f", 3 bytes at offset 0 relative to the end of the header)
// @claims with the padded header present, record offsets are taken relative to the end of the header
// @assume encoding_rs encode/decode replaced by the 7-bit model (stubs.rs)
#[kani::proof]
#[kani::unwind(130)]
#[kani::stub(encoding_rs::Encoding::decode, crate::stubs::decode_ascii_model)]
#[kani::stub(encoding_rs::Encoding::encode, crate::stubs::encode_ascii_model)]
fn c16_extract_padded() {
    let img = arc_image(true, true, true, &[(Some("f"), 3, 0)], &[&[0xA1, 0xA2, 0xA3]], 1);
    let files = keep(mila::arc::from_bytes(&img)).unwrap();
    let f = files.get("f").unwrap();
    assert!(files.len() == 1 && f.len() == 3 && f[0] == 0xA1 && f[2] == 0xA3, "C16: with the padded header, offsets are relative to its end");
    std::mem::forget(files);
    std::mem::forget(img);
}

// @tier quick
// @timeout 600
// @expect witness
// @bounds the one-file pack archive
// @claims vacuity witness for the C15/C16 harnesses (must FAIL at its final assert)
#[kani::proof]
#[kani::unwind(42)]
#[kani::stub(encoding_rs::Encoding::decode, crate::stubs::decode_ascii_model)]
#[kani::stub(encoding_rs::Encoding::encode, crate::stubs::encode_ascii_model)]
fn c15_witness() {
    check_pack(&["a"], &[&[7]]);
    assert!(false, "VACUITY-WITNESS");
}
