#!/bin/bash
# usage: tools/sweep3.sh <tier> <logprefix> P1 P2 ... — runs the checks three at a time (5 solvers and a 17 GB
# admission budget each); one summary line block per property in <logprefix>.log
TIER=$1; PFX=$2; shift 2
cd /verif
export VERIF_MEM_BUDGET=17
run_one() {
  p=$1
  python3 run_check.py "$p" --tier "$TIER" --jobs 5 > "${PFX}_$p.log" 2>&1
  rc=$?
  { echo "== $p exit=$rc"; grep -a "harnesses decided\|INCONCLUSIVE\|VIOLATION\|FAILED CHECK\|KNOWN-FINDING\|^error" "${PFX}_$p.log" | cut -c1-260; } >> "$PFX.log"
}
n=0
for p in "$@"; do
  run_one "$p" &
  n=$((n+1))
  if [ $n -ge 3 ]; then wait -n; n=$((n-1)); fi
done
wait
echo "ALL DONE" >> "$PFX.log"
