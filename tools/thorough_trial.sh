#!/bin/sh
# usage: tools/thorough_trial.sh <cap-seconds> <admit-scale> P1 P2 ...  — runs only the thorough-tier harnesses of each
# property with every solver timeout capped (trial: decides which thorough harnesses can stay registered).
CAP=$1; SCALE=$2; shift 2
cd /verif
export VERIF_EVIDENCE_DIR=/verif/work/scratch_evidence
for p in "$@"; do
  python3 run_check.py "$p" --tier thorough --tier-only --timeout-cap "$CAP" --admit-scale "$SCALE" --jobs 12 --no-replay > "/tmp/trial_$p.log" 2>&1
  echo "== $p exit=$?" >> /tmp/trial.log
  grep -a "DONE\|TIMEOUT\|ERROR\|INCONCLUSIVE\|FAILED CHECK\|harnesses decided" "/tmp/trial_$p.log" | cut -c1-220 >> /tmp/trial.log
done
echo "TRIAL DONE" >> /tmp/trial.log
