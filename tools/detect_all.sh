#!/bin/sh
# Runs seeded/detect.sh for the listed "<seed-name>:<PROP>[:<only-filter>]" items one after another (each patches
# /repo!). With an only-filter just the named harnesses of the property's quick check are run (targeted run).
cd /verif
for item in "$@"; do
  name=$(echo "$item" | cut -d: -f1); prop=$(echo "$item" | cut -d: -f2); only=$(echo "$item" | cut -s -d: -f3)
  echo "#### $name ($prop) ${only:+only=$only}" >> /tmp/detect_all.log
  if [ -n "$only" ]; then
    seeded/detect.sh "$name" "$prop" --only "$only" >> /tmp/detect_all.log 2>&1
    echo "targeted run: --only $only" >> seeded/$name/detect.log
  else
    seeded/detect.sh "$name" "$prop" >> /tmp/detect_all.log 2>&1
  fi
done
echo "DETECT DONE" >> /tmp/detect_all.log
