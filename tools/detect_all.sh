#!/bin/sh
# Runs seeded/detect.sh for the listed "<seed-name>:<PROP>" pairs one after another (each patches /repo!).
cd /verif
for pair in "$@"; do
  name=${pair%%:*}; prop=${pair##*:}
  echo "#### $name ($prop)" >> /tmp/detect_all.log
  seeded/detect.sh "$name" "$prop" >> /tmp/detect_all.log 2>&1
done
echo "DETECT DONE" >> /tmp/detect_all.log
