#!/usr/bin/env python3
"""Rewrites §7 of DESIGN.md from seeded/*/meta.json (run tools/seed_summary.py first)."""
import json, os, re
V = os.path.join(os.path.dirname(os.path.abspath(__file__)), "..")
rows = []
for name in sorted(os.listdir(os.path.join(V, "seeded"))):
    mp = os.path.join(V, "seeded", name, "meta.json")
    if os.path.isfile(mp):
        m = json.load(open(mp))
        rows.append((name, m["property"], m.get("round", 1), m.get("detection_result", "?"), ", ".join(dict.fromkeys(m.get("detected_by", []))), m.get("note", "")))
det = sum(1 for r in rows if r[3].startswith("detected"))
late = sum(1 for r in rows if r[5])
txt = f"""## 7. Seeded changes (independent sub-agents; /verif/seeded/<name>/)

32 changes were written by fresh sub-agents that saw only one property's text and a scratch worktree of
/repo (round 2 agents were also told which idea was already taken). Each compiles, passes the 82 existing
tests and comes with a demonstration test that fails with it and passes without it; each was re-confirmed
in a fresh worktree (`seeded/confirm_seed.sh`). Detection was measured with `seeded/detect.sh`
(`git -C /repo apply`, the property's quick check — the whole check, or the named harnesses for the runs
marked "targeted" in `seeded/SUMMARY.md` —, `git -C /repo checkout -- .`). **{det} of {len(rows)} are reported
as VIOLATION (exit 1, confirmed by native replay)** by the quick tier as committed. {late} of them were *not*
caught by the checks as they stood when the seed arrived (first run missed, or the miss was read off the
harness bounds); the note column says what was added. The recurring reason is the same each time: where
CBMC forces concrete structure (§2), a check sees exactly the structures its author planted, and an
independent author picks a different corner (a pointer to the end address, an 8-byte name, an empty file
before a non-empty one, 272-byte matches, an astral character, two neighbouring optional fields, …). The
claims in §4 are therefore to be read literally: all values *within the listed structures*.

| seed | property | round | detecting harness(es) | added after the seed? |
|---|---|---|---|---|
"""
for r in rows:
    txt += f"| {r[0]} | {r[1]} | {r[2]} | {r[4] if r[3].startswith('detected') else r[3]} | {r[5] or 'no: caught as the checks stood'} |\n"
p = os.path.join(V, "DESIGN.md")
s = open(p).read()
i = s.index("## 7. Seeded changes")
s = s[:i] + txt
open(p, "w").write(s)
print(det, len(rows), late)
