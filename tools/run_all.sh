#!/bin/sh
# usage: tools/run_all.sh <tier> <log-prefix> P1 P2 ...   — runs the checks one after another (each uses up to 12 cores)
# and appends a summary per property to <log-prefix>.log
TIER=$1; PFX=$2; shift 2
cd /verif
for p in "$@"; do
  python3 run_check.py "$p" --tier "$TIER" --jobs 12 > "${PFX}_$p.log" 2>&1
  echo "== $p exit=$?" >> "$PFX.log"
  grep -a "harnesses decided\|INCONCLUSIVE\|VIOLATION\|FAILED CHECK\|KNOWN-FINDING\|^error" "${PFX}_$p.log" | cut -c1-260 >> "$PFX.log"
done
echo "ALL DONE" >> "$PFX.log"
