#!/usr/bin/env python3
"""Rebuilds seeded/SUMMARY.md from each seed's meta.json and detect.log (the log of
seeded/detect.sh: patch applied to /repo, quick check of the property, /repo restored)."""
import json, os, re
HERE = os.path.join(os.path.dirname(os.path.abspath(__file__)), "..", "seeded")
rows = []
for name in sorted(os.listdir(HERE)):
    d = os.path.join(HERE, name)
    mp = os.path.join(d, "meta.json")
    if not os.path.isfile(mp):
        continue
    meta = json.load(open(mp))
    lp = os.path.join(d, "detect.log")
    result, harnesses = "not run", []
    if os.path.isfile(lp):
        txt = open(lp, errors="replace").read()
        harnesses = re.findall(r"VIOLATION property=\w+ replay=\S*/(\w+)\.replay\.txt", txt)
        m = re.findall(r"exit=(\d+)", txt)
        rc = int(m[-1]) if m else None
        if harnesses and rc == 1:
            result = "**detected**"
        elif rc == 0:
            result = "missed"
        elif rc == 2:
            result = "inconclusive (exit 2)"
        else:
            result = f"exit {rc}"
        unconf = re.findall(r"INCONCLUSIVE: (\w+): counterexample", txt)
        if not harnesses and unconf:
            result = "flagged by the solver, not reproduced natively (exit 2)"
            harnesses = unconf
    tm = re.search(r"targeted run: --only (\S+)", open(lp, errors="replace").read()) if os.path.isfile(lp) else None
    if tm:
        result += f" (targeted run: --only {tm.group(1)})"
    meta["detected_by"] = harnesses
    meta["detection_result"] = re.sub(r"\*", "", result)
    json.dump(meta, open(mp, "w"), indent=1)
    note = meta.get("note", "")
    rows.append((name, meta["property"], meta.get("round", 1), meta.get("needs_to_manifest", ""), result,
                 ", ".join(dict.fromkeys(harnesses)) + (" — " + note if note else "")))
with open(os.path.join(HERE, "SUMMARY.md"), "w") as f:
    f.write("""# Seeded changes (written by independent sub-agents from the property text only)

Each directory holds `patch.diff`, the demonstration `seed_demo.rs`, `agent_notes.md`, `meta.json`
and `detect.log` (output of `seeded/detect.sh <name> <PROP>`: `git -C /repo apply`, the property's
quick check, `git -C /repo checkout -- .`). Every change was re-confirmed with
`seeded/confirm_seed.sh` in a fresh scratch worktree: the demo passes without the patch, the 82
existing tests pass with it, the demo fails with it. Round 2 agents were told not to reuse the
round-1 idea of their property. This table is rebuilt by `tools/seed_summary.py` from the logs.

| seed | property | round | needs to manifest | result (quick tier) | detecting harnesses / note |
|---|---|---|---|---|---|
""")
    for r in rows:
        f.write("| " + " | ".join(str(x) for x in r) + " |\n")
    det = sum(1 for r in rows if "detected" in r[4])
    f.write(f"\n{det} of {len(rows)} seeded changes are reported as VIOLATION (confirmed by native replay) by the quick tier.\n")
print(open(os.path.join(HERE, "SUMMARY.md")).read()[-1500:])
