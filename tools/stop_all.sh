#!/bin/sh
# Stops every runner / solver process started from /verif (used between experiments).
for p in $(pgrep -f "tmp/final.sh|tmp/sweep|seeded/detect.sh"); do kill "$p" 2>/dev/null; done
for p in $(pgrep -f "run_check.py"); do kill "$p" 2>/dev/null; done
sleep 1
pkill -x cbmc 2>/dev/null
sleep 1
pkill -x cbmc 2>/dev/null
echo "remaining: $(pgrep -x cbmc | wc -l) cbmc, $(pgrep -f run_check.py | wc -l) runners"
