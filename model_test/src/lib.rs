//! Differential test of the verification-build container models (src/verif_support.rs in /repo,
//! `--cfg mila_verif`) against the real containers they stand in for. Run natively:
//!   RUSTFLAGS="--cfg mila_verif" cargo test --offline
//! Pseudo-random operation sequences (xorshift, seed from VERIF_SEED) over a small key space so
//! that the 4-slot capacity is respected; after every step both containers must agree on every
//! observable mila uses (len, get, contains, iteration order for IndexMap, iteration *set* for HashMap).
#![cfg(test)]

use mila::verif_support as model;

struct Rng(u64);
impl Rng {
    fn next(&mut self) -> u64 {
        self.0 ^= self.0 << 13;
        self.0 ^= self.0 >> 7;
        self.0 ^= self.0 << 17;
        self.0
    }
}

fn seed() -> u64 {
    std::env::var("VERIF_SEED").ok().and_then(|s| s.parse::<u64>().ok()).unwrap_or(0) * 2654435761 + 88172645463325252
}

#[test]
fn index_map_model_matches_indexmap() {
    let mut rng = Rng(seed());
    for _round in 0..2000 {
        let mut real: indexmap::IndexMap<String, u32> = indexmap::IndexMap::new();
        let mut m: model::IndexMap<String, u32> = model::IndexMap::new();
        for _step in 0..12 {
            let key = format!("k{}", rng.next() % 4);
            let val = (rng.next() % 100) as u32;
            match rng.next() % 6 {
                0 | 1 => {
                    assert_eq!(real.insert(key.clone(), val), m.insert(key.clone(), val));
                }
                2 => {
                    assert_eq!(real.shift_remove(key.as_str()), m.shift_remove(key.as_str()));
                }
                3 => {
                    assert_eq!(real.swap_remove(key.as_str()), m.swap_remove(key.as_str()));
                }
                4 => {
                    *real.entry(key.clone()).or_default() += 1;
                    *m.entry(key.clone()).or_default() += 1;
                }
                _ => {
                    if let Some(v) = real.get_mut(key.as_str()) {
                        *v += 7;
                    }
                    if let Some(v) = m.get_mut(key.as_str()) {
                        *v += 7;
                    }
                }
            }
            assert_eq!(real.len(), m.len());
            assert_eq!(real.contains_key(key.as_str()), m.contains_key(key.as_str()));
            assert_eq!(real.get(key.as_str()), m.get(key.as_str()));
            let a: Vec<(String, u32)> = real.iter().map(|(k, v)| (k.clone(), *v)).collect();
            let b: Vec<(String, u32)> = m.iter().map(|(k, v)| (k.clone(), *v)).collect();
            assert_eq!(a, b, "iteration order differs");
            assert_eq!(real.first().map(|(k, v)| (k.clone(), *v)), m.first().map(|(k, v)| (k.clone(), *v)));
            assert_eq!(real.keys().cloned().collect::<Vec<_>>(), m.keys().cloned().collect::<Vec<_>>());
        }
        let a: Vec<(String, u32)> = real.into_iter().collect();
        let b: Vec<(String, u32)> = m.into_iter().collect();
        assert_eq!(a, b);
    }
}

#[test]
fn hash_map_model_matches_std() {
    let mut rng = Rng(seed() ^ 0x9E3779B97F4A7C15);
    for _round in 0..2000 {
        let mut real: std::collections::HashMap<usize, Vec<u32>> = std::collections::HashMap::new();
        let mut m: model::HashMap<usize, Vec<u32>> = model::HashMap::new();
        for _step in 0..12 {
            let key = (rng.next() % 4) as usize * 4;
            let val = (rng.next() % 100) as u32;
            match rng.next() % 6 {
                0 | 1 => {
                    assert_eq!(real.insert(key, vec![val]), m.insert(key, vec![val]));
                }
                2 => {
                    assert_eq!(real.remove(&key), m.remove(&key));
                }
                3 => {
                    real.entry(key).or_default().push(val);
                    m.entry(key).or_default().push(val);
                }
                4 => {
                    real.retain(|k, v| *k != key || v.len() > 1);
                    m.retain(|k, v| *k != key || v.len() > 1);
                }
                _ => {
                    for v in real.values_mut() {
                        v.push(1);
                    }
                    for v in m.values_mut() {
                        v.push(1);
                    }
                }
            }
            assert_eq!(real.len(), m.len());
            assert_eq!(real.get(&key), m.get(&key));
            assert_eq!(real.contains_key(&key), m.contains_key(&key));
            let mut a: Vec<(usize, Vec<u32>)> = real.iter().map(|(k, v)| (*k, v.clone())).collect();
            let mut b: Vec<(usize, Vec<u32>)> = m.iter().map(|(k, v)| (*k, v.clone())).collect();
            a.sort();
            b.sort();
            assert_eq!(a, b, "entry sets differ");
            let c: model::HashMap<usize, Vec<u32>> = m.iter().map(|(k, v)| (*k, v.clone())).collect();
            assert!(c == m.clone());
            let mut vs: Vec<Vec<u32>> = m.values().cloned().collect();
            let mut rs: Vec<Vec<u32>> = real.values().cloned().collect();
            vs.sort();
            rs.sort();
            assert_eq!(vs, rs);
        }
    }
}

#[test]
fn hash_set_model_matches_std() {
    let mut rng = Rng(seed() ^ 0xD1B54A32D192ED03);
    for _round in 0..1000 {
        let mut real: std::collections::HashSet<usize> = std::collections::HashSet::new();
        let mut m: model::HashSet<usize> = model::HashSet::new();
        for _step in 0..10 {
            let key = (rng.next() % 4) as usize;
            if rng.next() % 3 == 0 {
                assert_eq!(real.remove(&key), m.remove(&key));
            } else {
                assert_eq!(real.insert(key), m.insert(key));
            }
            assert_eq!(real.len(), m.len());
            assert_eq!(real.contains(&key), m.contains(&key));
            let mut a: Vec<usize> = real.iter().copied().collect();
            let mut b: Vec<usize> = m.iter().copied().collect();
            a.sort();
            b.sort();
            assert_eq!(a, b);
        }
    }
}
