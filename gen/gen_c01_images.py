#!/usr/bin/env python3
"""Generates kani/src/c01_images.rs: C01/C02 harnesses driven by canonical images.

This script is the harness-side *reference writer* of the bin-archive format, written from the
format rules in the property statements (not from mila's serialize): header totals, c-string pool
appended to the data, pointer table = internal + pool pointers by ascending address then string
pointers grouped by string in first-use order, labels by address (little-endian) or by name
(big-endian), text section = label names then strings, every distinct string once.

For every spec it emits (a) a constant image, (b) a harness that builds the archive through mila's
public API, serializes it and compares the bytes with the image, and (c) a harness that parses the
constant image with mila, checks every cell against the spec and re-serializes. serialize(a) = IMAGE
and parse(IMAGE) = a together decide serialize -> parse without pushing a heap image through the
parser, which CBMC cannot carry (DESIGN.md §2).
"""
import os
import struct


def enc(s):  # ASCII only
    return s.encode("ascii") + b"\0"


def reference_image(spec):
    e = "<" if spec["endian"] == "LE" else ">"
    data = bytearray(spec["data"])
    n = len(data)
    pool = bytearray()
    pool_off = {}
    for s in sorted(set(spec.get("cstrings", {}).values()), key=lambda x: x.encode("ascii")):
        pool_off[s] = len(pool)
        pool += enc(s)
    while len(pool) % 4:
        pool.append(0)
    ptrs = dict(spec.get("pointers", {}))
    for cell, s in spec.get("cstrings", {}).items():
        ptrs[cell] = n + pool_off[s]
    strings = spec.get("strings", {})
    labels = spec.get("labels", {})  # address -> [names]
    if spec["endian"] == "LE":
        lab_order = sorted(labels.items(), key=lambda kv: kv[0])
    else:
        lab_order = sorted(labels.items(), key=lambda kv: (kv[1], kv[0]))
    text = bytearray()
    off = {}

    def add(s):
        if s not in off:
            off[s] = len(text)
            text.extend(enc(s))
        return off[s]

    lab_entries = []
    for addr, names in lab_order:
        for nm in names:
            lab_entries.append((addr, add(nm)))
    groups = []  # (string, [cells]) in first-use order
    for cell in sorted(strings):
        s = strings[cell]
        add(s)
        for g in groups:
            if g[0] == s:
                g[1].append(cell)
                break
        else:
            groups.append((s, [cell]))
    ptr_table = sorted(ptrs) + [c for _, cells in groups for c in sorted(cells)]
    text_start = n + len(pool) + 4 * len(ptr_table) + 8 * len(lab_entries)
    for cell, target in ptrs.items():
        data[cell:cell + 4] = struct.pack(e + "I", target)
    for cell, s in strings.items():
        data[cell:cell + 4] = struct.pack(e + "I", text_start + off[s])
    body = bytes(data) + bytes(pool)
    body += b"".join(struct.pack(e + "I", c) for c in ptr_table)
    body += b"".join(struct.pack(e + "II", a, o) for a, o in lab_entries)
    body += bytes(text)
    total = 0x20 + len(body)
    header = struct.pack(e + "IIII", total, n + len(pool), len(ptr_table), len(lab_entries)) + bytes(16)
    return header + body


SPECS = [
    dict(name="a_le", prop="C01", endian="LE", data=[1, 2, 3, 4, 0, 0, 0, 0], strings={4: "AB"}, labels={0: ["L"], 8: ["E"]},
         doc="raw cell, string cell, label on a cell and on the end address"),
    dict(name="a_be", prop="C01", endian="BE", data=[1, 2, 3, 4, 0, 0, 0, 0], strings={4: "AB"}, labels={0: ["L"], 8: ["E"]},
         doc="as a_le, big-endian (labels ordered by name: E before L)"),
    dict(name="b_le", prop="C01", endian="LE", data=[0, 0, 0, 0, 9, 8, 7, 6, 5, 4], pointers={0: 10}, labels={4: ["X", "Y"], 9: ["U"]},
         doc="unaligned size 10, pointer to the end address, two ordered labels on one address, label on an unaligned address"),
    dict(name="b_be", prop="C01", endian="BE", data=[0, 0, 0, 0, 9, 8, 7, 6, 5, 4], pointers={0: 10}, labels={4: ["X", "Y"], 9: ["U"]},
         doc="as b_le, big-endian"),
    dict(name="mixed_le", prop="C01", endian="LE", data=[0] * 12, strings={0: "T", 8: "T"}, cstrings={4: "C"},
         doc="the same string on two cells mixed with a c-string (pool appended to the data)"),
    dict(name="mixed_be", prop="C01", endian="BE", data=[0] * 8, strings={0: "S"}, cstrings={4: "C"},
         doc="one string and one c-string, big-endian"),
    dict(name="cstr_eq_le", prop="C01", endian="LE", data=[0] * 12, strings={4: "N", 8: "F"}, cstrings={0: "N"}, labels={4: ["N"]},
         doc="a c-string whose text equals a string and a label name (pool offsets and text-section offsets are separate)"),
    dict(name="dup_label_le", prop="C02", endian="LE", data=[0] * 8, labels={0: ["A"], 4: ["A"]},
         doc="the same label name on two addresses (stored once in the text section)"),
    dict(name="dup_label_be", prop="C02", endian="BE", data=[0] * 8, labels={0: ["x"], 4: ["x"]}, strings={0: "A", 4: "B"},
         doc="big-endian, equal label names on two addresses (tie broken by address) and two strings"),
    dict(name="groups_le", prop="C02", endian="LE", data=[0] * 12, strings={0: "P", 4: "Q", 8: "P"}, labels={12: ["Q"]},
         doc="a string used by non-adjacent cells (grouped in first-use order) and a label name equal to a string"),
]


def rs_bytes(b):
    return ", ".join(str(x) for x in b)


def build_code(spec):
    e = "Endian::Little" if spec["endian"] == "LE" else "Endian::Big"
    n = len(spec["data"])
    out = [f"    let mut a = BinArchive::new({e});", f"    a.allocate_at_end({n});"]
    if any(spec["data"]):
        out.append(f"    keep(a.write_bytes(0, &[{rs_bytes(spec['data'])}])).unwrap();")
    # deliberately in descending address order: content, not call order, must determine the image
    for cell, t in sorted(spec.get("pointers", {}).items(), reverse=True):
        out.append(f"    keep(a.write_pointer({cell}, Some({t}))).unwrap();")
    for cell, s in sorted(spec.get("strings", {}).items(), reverse=True):
        out.append(f"    keep(a.write_string({cell}, Some(\"{s}\"))).unwrap();")
    for cell, s in sorted(spec.get("cstrings", {}).items(), reverse=True):
        out.append(f"    keep(a.write_c_string({cell}, \"{s}\".to_string())).unwrap();")
    for addr, names in sorted(spec.get("labels", {}).items(), reverse=True):
        for nm in names:
            out.append(f"    keep(a.write_label({addr}, \"{nm}\")).unwrap();")
    return "\n".join(out)


def parse_checks(spec):
    n = len(spec["data"])
    cs = set(spec.get("cstrings", {}).values())
    pool = (sum(len(s) + 1 for s in cs) + 3) // 4 * 4 if cs else 0
    P = spec["prop"]
    q = chr(34)
    out = [f"    assert!(b.size() == {n + pool}, \"{P}: parsed size must be the data size (plus the padded c-string pool)\");"]
    for cell in range(0, n - 3, 4):
        if cell in spec.get("strings", {}):
            out.append(f"    assert!(keep(b.read_string({cell})).unwrap().as_deref() == Some(\"{spec['strings'][cell]}\"), \"{P}: string cell {cell} changed\");")
            out.append(f"    assert!(keep(b.read_pointer({cell})).unwrap().is_none(), \"{P}: string cell {cell} came back as a pointer\");")
        elif cell in spec.get("pointers", {}):
            out.append(f"    assert!(keep(b.read_pointer({cell})).unwrap() == Some({spec['pointers'][cell]}), \"{P}: pointer cell {cell} changed (or was taken for a string)\");")
            out.append(f"    assert!(keep(b.read_string({cell})).unwrap().is_none(), \"{P}: pointer cell {cell} came back as a string\");")
        elif cell in spec.get("cstrings", {}):
            out.append(f"    assert!(keep(b.read_c_string({cell})).unwrap().as_deref() == Some(\"{spec['cstrings'][cell]}\"), \"{P}: c-string cell {cell} changed\");")
            out.append(f"    assert!(keep(b.read_string({cell})).unwrap().is_none(), \"{P}: c-string cell {cell} came back as a string\");")
        else:
            raw = spec["data"][cell:cell + 4]
            out.append(f"    assert!(keep(b.read_bytes({cell}, 4)).unwrap() == [{rs_bytes(raw)}], \"{P}: raw cell {cell} changed\");")
            out.append(f"    assert!(keep(b.read_string({cell})).unwrap().is_none() && keep(b.read_pointer({cell})).unwrap().is_none(), \"{P}: annotation invented on cell {cell}\");")
    if n % 4:
        tail = spec["data"][n - n % 4:]
        out.append(f"    assert!(keep(b.read_bytes({n - n % 4}, {n % 4})).unwrap() == [{rs_bytes(tail)}], \"{P}: trailing raw bytes changed\");")
    labels = spec.get("labels", {})
    total = sum(len(v) for v in labels.values())
    out.append(f"    assert!(b.get_labels().len() == {total}, \"{P}: number of labels changed\");")
    for addr, names in sorted(labels.items()):
        if addr + 4 <= n:
            out.append(f"    label_at(&b, {addr}, &[{', '.join(q + x + q for x in names)}]);")
        else:
            for nm in names:
                if sum(1 for v in labels.values() for y in v if y == nm) == 1:
                    out.append(f"    assert!(b.find_label_address(\"{nm}\") == Some({addr}), \"{P}: label on address {addr} lost or moved\");")
    for cell in range(0, n - 3, 4):
        if cell not in labels:
            out.append(f"    label_at(&b, {cell}, &[]);")
    return "\n".join(out)


HEADER = '''//! C01 / C02 — bin archive serialize -> parse and canonical serialization, decided through
//! canonical images. GENERATED by gen/gen_c01_images.py, which is the harness-side reference writer
//! of the format (do not edit by hand).
//!
//! For each toy archive: `..._serialize` builds it through mila's API (annotations written in
//! descending address order), serializes and compares byte for byte with the reference image;
//! `..._parse` parses the same constant image with mila and checks every cell, then re-serializes the
//! parsed archive and compares again. serialize(a) = IMAGE and parse(IMAGE) = a decide
//! parse(serialize(a)) = a, canonical form, call-order independence and byte-stable re-serialization
//! without pushing a heap image through the parser (which CBMC cannot carry, DESIGN.md §2).
use crate::stubs::*;
use crate::util::*;
use mila::{BinArchive, Endian};

fn label_at(a: &BinArchive, addr: usize, want: &[&str]) {
    let got = keep(a.read_labels(addr)).unwrap();
    match got {
        Some(v) => {
            assert!(v.len() == want.len(), "C01: number of labels on an address changed");
            for i in 0..want.len() {
                assert!(v[i] == want[i], "C01: labels of an address changed or were reordered");
            }
            std::mem::forget(v);
        }
        None => assert!(want.is_empty(), "C01: labels of an address were lost"),
    }
}

fn same_image(img: &[u8], want: &[u8]) {
    assert!(img.len() == want.len(), "C01/C02: serialized image length differs from the canonical image (header totals / sections)");
    let i: usize = kani::any();
    kani::assume(i < want.len());
    assert!(img[i] == want[i], "C01/C02: serialized image differs from the canonical image");
}
'''

WITNESSES = '''// @tier quick
// @timeout 600
// @expect witness
// @bounds archive a_le
// @unwindset extend_with=90
// @cbmc --max-field-sensitivity-array-size 128
// @claims vacuity witness for the C01 harnesses (must FAIL at its final assert)
#[kani::proof]
#[kani::unwind(14)]
#[kani::stub(encoding_rs::Encoding::decode, crate::stubs::decode_ascii_model)]
fn c01_witness() {
    let b = keep(BinArchive::from_bytes(&IMAGE_A_LE, Endian::Little)).unwrap();
    if b.size() == 8 {
        assert!(false, "VACUITY-WITNESS");
    }
    std::mem::forget(b);
}

// @tier quick
// @timeout 600
// @expect witness
// @bounds archive dup_label_le
// @unwindset extend_with=90
// @cbmc --max-field-sensitivity-array-size 128
// @claims vacuity witness for the C02 harnesses (must FAIL at its final assert)
#[kani::proof]
#[kani::unwind(14)]
#[kani::stub(encoding_rs::Encoding::decode, crate::stubs::decode_ascii_model)]
fn c02_witness() {
    let b = keep(BinArchive::from_bytes(&IMAGE_DUP_LABEL_LE, Endian::Little)).unwrap();
    if b.size() == 8 {
        assert!(false, "VACUITY-WITNESS");
    }
    std::mem::forget(b);
}
'''


def main():
    o = [HEADER]
    for spec in SPECS:
        img = reference_image(spec)
        N = len(img)
        name = spec["name"]
        P = spec["prop"].lower()
        e = "Endian::Little" if spec["endian"] == "LE" else "Endian::Big"
        C = f"IMAGE_{name.upper()}"
        fs = max(128, N + 8)
        o.append(f"/// {spec['doc']} ({spec['endian']}, {N} bytes)\nconst {C}: [u8; {N}] = [{rs_bytes(img)}];\n")
        o.append(f'''// @tier quick
// @timeout 1800
// @mem 12
// @bounds concrete archive "{name}": {spec['doc']}; {spec['endian']}
// @unwindset extend_with={N + 20}
// @cbmc --max-field-sensitivity-array-size {fs}
// @claims serialize produces exactly the canonical image ({N} bytes: header totals, pool, pointer table order, label order, text section) whatever the order of the API calls that built the archive
// @assume encoding_rs encode replaced by the 7-bit model (stubs.rs): ASCII strings
#[kani::proof]
#[kani::unwind(14)]
#[kani::stub(encoding_rs::Encoding::encode, crate::stubs::encode_ascii_model)]
fn {P}_{name}_serialize() {{
{build_code(spec)}
    let img = keep(a.serialize()).unwrap();
    same_image(&img, &{C});
    std::mem::forget(img);
    std::mem::forget(a);
}}

// @tier quick
// @timeout 1800
// @mem 12
// @bounds the canonical {N}-byte image of archive "{name}" ({spec['endian']})
// @unwindset extend_with={N + 20}
// @cbmc --max-field-sensitivity-array-size {fs}
// @claims from_bytes recovers size, raw bytes, pointers, strings, c-strings and labels (per-address order, end and unaligned addresses) from the canonical image; re-serializing the parsed archive reproduces the image byte for byte
// @assume encoding_rs encode/decode replaced by the 7-bit model (stubs.rs)
#[kani::proof]
#[kani::unwind(14)]
#[kani::stub(encoding_rs::Encoding::decode, crate::stubs::decode_ascii_model)]
#[kani::stub(encoding_rs::Encoding::encode, crate::stubs::encode_ascii_model)]
fn {P}_{name}_parse() {{
    let b = keep(BinArchive::from_bytes(&{C}, {e})).unwrap();
{parse_checks(spec)}
    let again = keep(b.serialize()).unwrap();
    same_image(&again, &{C});
    std::mem::forget(again);
    std::mem::forget(b);
}}
''')
    o.append(WITNESSES)
    path = os.path.join(os.path.dirname(os.path.abspath(__file__)), "..", "kani", "src", "c01_images.rs")
    open(path, "w").write("\n".join(o))
    hand = bytes([67, 0, 0, 0, 8, 0, 0, 0, 1, 0, 0, 0, 2, 0, 0, 0] + [0] * 16 + [1, 2, 3, 4, 32, 0, 0, 0, 4, 0, 0, 0, 0, 0, 0, 0, 0, 0, 0, 0,
                 8, 0, 0, 0, 2, 0, 0, 0, 0x4C, 0, 0x45, 0, 0x41, 0x42, 0])
    assert reference_image(SPECS[0]) == hand, "reference writer disagrees with the hand-assembled image"


if __name__ == "__main__":
    main()
