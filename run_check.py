#!/usr/bin/env python3
"""Runner for the solver-based checks of /verif (see DESIGN.md §3).

  run_check.py <PROPERTY_ID> [--tier quick|thorough] [--only SUBSTR] [--jobs N]
  run_check.py --setup
  run_check.py --replay <path>
  run_check.py --list

For one property it (1) compiles /repo's *current working tree* plus the harness crate with
Kani (`--cfg mila_verif`), (2) turns every selected harness into a goto program with the same
goto-cc / goto-instrument pipeline kani-driver uses, (3) runs CBMC on each (in parallel, under a
memory and time cap, unwinding assertions on), (4) classifies every property CBMC reports,
(5) replays counterexamples natively before reporting them and (6) writes evidence/<id>.json.

Exit status: 0 = every assertion of every harness decided SUCCESS within its bounds (known findings
are printed as KNOWN-FINDING lines); 1 = a reproduced violation (VIOLATION line printed);
2 = inconclusive / machinery problem (timeout, out of memory, too-small unwind bound, vacuous
harness, counterexample that does not reproduce). 2 is never reported as a pass.
"""
import argparse
import concurrent.futures
import fcntl
import glob
import json
import os
import re
import resource
import shutil
import subprocess
import sys
import time

VERIF = os.path.dirname(os.path.abspath(__file__))
CRATE = os.path.join(VERIF, "kani")
TARGET = os.path.join(CRATE, "target")
WORK = os.path.join(VERIF, "work")
EVID = os.environ.get("VERIF_EVIDENCE_DIR") or os.path.join(VERIF, "evidence")  # seeded/detect.sh redirects it
REPLAYS = os.path.join(VERIF, "replays")
KNOWN = os.path.join(VERIF, "known_findings.txt")
REPO = "/repo"
KANI_HOME = os.path.expanduser("~/.kani/kani-0.68.0")
KANI_LIB_C = os.path.join(KANI_HOME, "library/kani/kani_lib.c")
CRATE_NAME = "mila_verif_harness"

CBMC_FLAGS = [
    "--no-malloc-may-fail", "--no-undefined-shift-check", "--no-signed-overflow-check",
    "--nan-check", "--no-self-loops-to-assumptions", "--no-pointer-primitive-check",
    "--object-bits", "16", "--sat-solver", "cadical", "--slice-formula", "--verbosity", "8",
]

ENV = dict(os.environ)
ENV["CARGO_NET_OFFLINE"] = "true"
ENV["RUSTFLAGS"] = "--cfg mila_verif"
ENV.pop("RUSTUP_TOOLCHAIN", None)


def log(msg):
    print(msg, flush=True)


# --------------------------------------------------------------------------------------------
# Harness metadata (parsed from the `// @key value` comment block above each #[kani::proof])
# --------------------------------------------------------------------------------------------

class Harness:
    def __init__(self, name, module, file, line):
        self.name = name
        self.module = module
        self.file = file
        self.line = line
        self.prop = name[:3].upper()
        self.tier = "quick"
        self.timeout = 600
        self.mem_gb = 8
        self.unwind = None
        self.unwindset = {}
        self.bounds = ""
        self.claims = ""
        self.assumes = []
        self.expect = "pass"      # pass | witness (a reachability twin that must FAIL)
        self.cbmc_args = []       # extra CBMC options (`// @cbmc --max-field-sensitivity-array-size 512`)
        self.alloc_limit = None   # `// @alloclimit N`: every single allocation request must be <= N bytes
        self.functions = []

    def to_json(self):
        return {"name": self.name, "file": os.path.relpath(self.file, VERIF), "tier": self.tier,
                "unwind": self.unwind, "unwindset": self.unwindset, "bounds": self.bounds,
                "claims": self.claims, "assumptions": self.assumes, "expect": self.expect, "cbmc_args": self.cbmc_args}


def parse_harnesses():
    out = []
    for path in sorted(glob.glob(os.path.join(CRATE, "src", "*.rs"))):
        module = os.path.splitext(os.path.basename(path))[0]
        lines = open(path).read().split("\n")
        pending = {}
        i = 0
        while i < len(lines):
            ln = lines[i].strip()
            m = re.match(r"//\s*@(\w+)\s*(.*)$", ln)
            if m:
                key, val = m.group(1), m.group(2).strip()
                if key in ("assume",):
                    pending.setdefault(key, []).append(val)
                elif key in ("bounds", "claims") and key in pending:
                    pending[key] += " " + val
                else:
                    pending[key] = val
            elif ln.startswith("#[kani::proof"):
                j = i + 1
                unwind = None
                while j < len(lines) and not re.match(r"\s*(pub\s+)?fn\s+(\w+)", lines[j]):
                    mu = re.match(r"\s*#\[kani::unwind\((\d+)\)\]", lines[j])
                    if mu:
                        unwind = int(mu.group(1))
                    j += 1
                name = re.match(r"\s*(pub\s+)?fn\s+(\w+)", lines[j]).group(2)
                h = Harness(name, module, path, j + 1)
                h.unwind = unwind
                h.tier = pending.get("tier", "quick")
                h.timeout = int(pending.get("timeout", h.timeout))
                h.mem_gb = float(pending.get("mem", h.mem_gb))
                h.bounds = pending.get("bounds", "")
                h.claims = pending.get("claims", "")
                h.assumes = pending.get("assume", [])
                h.expect = pending.get("expect", "pass")
                h.cbmc_args = pending.get("cbmc", "").split()
                if "alloclimit" in pending:
                    h.alloc_limit = int(pending["alloclimit"], 0)
                if "unwindset" in pending:
                    for item in pending["unwindset"].split(","):
                        item = item.strip()
                        if item:
                            k, v = item.rsplit("=", 1)
                            h.unwindset[k.strip()] = int(v)
                out.append(h)
                pending = {}
                i = j
            elif ln and not ln.startswith("//") and not ln.startswith("#["):
                pending = {}
            i += 1
    return out


# --------------------------------------------------------------------------------------------
# Build
# --------------------------------------------------------------------------------------------

def run(cmd, **kw):
    return subprocess.run(cmd, stdout=subprocess.PIPE, stderr=subprocess.STDOUT, text=True, **kw)


def ensure_lock_file():
    """The harness crate resolves against /repo's lock file so the dependency versions match."""
    dst = os.path.join(CRATE, "Cargo.lock")
    if not os.path.exists(dst):
        shutil.copy(os.path.join(REPO, "Cargo.lock"), dst)


def build(harnesses, workdir):
    """Compile /repo (working tree) + harness crate, return {harness name: symtab path}."""
    ensure_lock_file()
    os.makedirs(workdir, exist_ok=True)
    lock = open(os.path.join(CRATE, ".build.lock"), "w")
    fcntl.flock(lock, fcntl.LOCK_EX)
    try:
        for d in glob.glob(os.path.join(TARGET, "kani", "*", "debug", "build", CRATE_NAME)):
            shutil.rmtree(d, ignore_errors=True)
        cmd = ["cargo", "kani", "--only-codegen", "--target-dir", TARGET, "-Z", "stubbing", "--exact"]
        for h in harnesses:
            cmd += ["--harness", f"{h.module}::{h.name}"]
        t0 = time.time()
        p = run(cmd, cwd=CRATE, env=ENV)
        dt = time.time() - t0
        open(os.path.join(workdir, "build.log"), "w").write(p.stdout)
        if p.returncode != 0:
            log(p.stdout[-6000:])
            raise SystemExit(f"ERROR: cargo kani --only-codegen failed (status {p.returncode}); see {workdir}/build.log")
        metas = glob.glob(os.path.join(TARGET, "kani", "*", "debug", "build", CRATE_NAME, "*", "out", "*.kani-metadata.json"))
        if len(metas) != 1:
            raise SystemExit(f"ERROR: expected one kani metadata file, found {metas}")
        meta = json.load(open(metas[0]))
        result = {}
        for ph in meta["proof_harnesses"]:
            short = ph["pretty_name"].split("::")[-1]
            dst = os.path.join(workdir, short + ".symtab.out")
            shutil.copy(ph["goto_file"], dst)
            pmap = ph["goto_file"].replace(".symtab.out", ".pretty_name_map.json")
            if os.path.exists(pmap):
                shutil.copy(pmap, os.path.join(workdir, short + ".names.json"))
            result[short] = {"symtab": dst, "mangled": ph["mangled_name"],
                             "unwind": ph["attributes"].get("unwind_value"),
                             "stubs": [s.get("original", str(s)) if isinstance(s, dict) else str(s)
                                       for s in ph["attributes"].get("stubs", [])]}
        missing = [h.name for h in harnesses if h.name not in result]
        if missing:
            raise SystemExit(f"ERROR: harnesses not produced by codegen: {missing}")
        return result, dt
    finally:
        fcntl.flock(lock, fcntl.LOCK_UN)
        lock.close()


# --------------------------------------------------------------------------------------------
# goto pipeline + CBMC
# --------------------------------------------------------------------------------------------

def limit_mem(gb):
    def f():
        b = int(gb * (1 << 30))
        resource.setrlimit(resource.RLIMIT_AS, (b, b))
        os.setsid()
    return f


ALLOC_LIMIT_MSG = "VERIF-ALLOC-LIMIT: a single buffer larger than the harness's bound was requested from the allocator"


def kani_lib_for(h, workdir):
    """Kani's C model of the Rust allocator entry points (kani_lib.c). With `// @alloclimit N` the runner
    links a copy in which __rust_alloc, __rust_alloc_zeroed and __rust_realloc assert that the requested
    size is at most N bytes: an allocation monitor at the level of the allocator model, so that every
    allocation site of the code under test is seen (not only instrumented ones)."""
    if h.alloc_limit is None:
        return KANI_LIB_C
    src = open(KANI_LIB_C).read()
    n = 0
    for fn, var in (("__rust_alloc(size_t size, size_t align)", "size"),
                    ("__rust_alloc_zeroed(size_t size, size_t align)", "size"),
                    ("__rust_realloc(uint8_t *ptr, size_t old_size, size_t align, size_t new_size)", "new_size")):
        pat = fn + "\n{\n"
        if pat in src:
            # assert, then assume: a larger request is reported, and the oversized object itself (which CBMC
            # could not flatten) is never built on that path
            src = src.replace(pat, pat + f'    __KANI_assert({var} <= (size_t){h.alloc_limit}ul, "{ALLOC_LIMIT_MSG}");\n', 1)
            n += 1
    if n != 3:
        raise RuntimeError("kani_lib.c does not have the expected allocator entry points")
    path = os.path.join(workdir, h.name + ".kani_lib.c")
    open(path, "w").write(src)
    return path


def prepare_goto(h, info, workdir):
    out = os.path.join(workdir, h.name + ".goto")
    steps = [
        ["goto-cc", info["symtab"], kani_lib_for(h, workdir), "-o", out],
        ["goto-cc", out, "--function", info["mangled"], "-o", out],
        ["goto-instrument", "--add-library", "--no-malloc-may-fail", out, out],
        ["goto-instrument", "--generate-function-body-options", "assert-false-assume-false",
         "--generate-function-body", ".*", "--drop-unused-functions", out, out],
        ["goto-instrument", "--ensure-one-backedge-per-target", out, out],
    ]
    for s in steps:
        p = run(s)
        if p.returncode != 0:
            return None, f"{s[0]} failed: {p.stdout[-2000:]}"
    return out, None


def resolve_unwindset(h, goto):
    """Map the harness's `pattern=N` table to CBMC loop ids via --show-loops."""
    if not h.unwindset:
        return [], {}
    p = run(["cbmc", "--show-loops", "--json-ui", goto])
    loops = []
    try:
        for item in json.loads(p.stdout):
            if "loops" in item:
                loops = item["loops"]
    except Exception:
        return None, {}
    pairs, used = [], {}
    for lp in loops:
        name = lp["name"]
        fn = lp.get("sourceLocation", {}).get("function", "")
        for pat, n in h.unwindset.items():
            if pat in fn or pat in name:
                pairs.append(f"{name}:{n}")
                used.setdefault(pat, []).append(fn)
                break
    unused = [p_ for p_ in h.unwindset if p_ not in used]
    return pairs, {"matched": {k: sorted(set(v)) for k, v in used.items()}, "unmatched_patterns": unused}


# Recursive drop glue of std::io::Error (bit-packed repr holding a Box<dyn Error>) and of the error
# enums that wrap it: without a separate bound CBMC unrolls it to the loop bound on every path that
# drops an error value. Depth 3 is more than any real nesting; exceeding it trips CBMC's recursion
# unwinding assertion, which this runner reports as "unwind bound too small" (never as a pass).
RECURSION_PATTERNS = (
    "drop_glue::<std::io::Error>", "drop_glue::<core::io::error::", "core::io::error::repr::Repr as std::ops::Drop",
    "core::io::error::CustomOwner as std::ops::Drop", "<std::io::Error as std::error::Error>::",
    "drop_glue::<mila::", "drop_glue::<std::boxed::Box<dyn std::error::Error",
    "drop_glue::<nintendo_lz::", "drop_glue::<binread::",
)
RECURSION_BOUND = 3


def recursion_unwindset(h, workdir):
    path = os.path.join(workdir, h.name + ".names.json")
    if not os.path.exists(path):
        return []
    try:
        names = json.load(open(path))
    except Exception:
        return []
    out = []
    for mangled, pretty in names.items():
        if pretty and mangled.startswith("_R") and any(p_ in pretty for p_ in RECURSION_PATTERNS):
            out.append(f"{mangled}:{RECURSION_BOUND}")
    return out


def run_cbmc(h, info, workdir):
    t0 = time.time()
    res = {"harness": h.name, "status": "ERROR", "detail": "", "wall_s": 0.0, "checks": [],
           "stubs": info.get("stubs", [])}
    goto, err = prepare_goto(h, info, workdir)
    if err:
        res["detail"] = err
        return res
    unwind = h.unwind if h.unwind is not None else info.get("unwind")
    cmd = ["cbmc"] + CBMC_FLAGS
    if unwind is not None:
        cmd += ["--unwind", str(unwind)]
    pairs, uinfo = resolve_unwindset(h, goto)
    if pairs is None:
        res["detail"] = "could not list loops"
        return res
    pairs = list(pairs) + recursion_unwindset(h, workdir)
    if pairs:
        cmd += ["--unwindset", ",".join(pairs)]
    res["unwind"] = unwind
    res["unwindset"] = uinfo
    cmd += h.cbmc_args
    cmd += [goto, "--json-ui"]
    jpath = os.path.join(workdir, h.name + ".cbmc.json")
    epath = os.path.join(workdir, h.name + ".cbmc.err")
    if os.path.exists("/usr/bin/time"):
        cmd = ["/usr/bin/time", "-f", "MAXRSS_KB %M"] + cmd
    with open(jpath, "w") as jf, open(epath, "w") as ef:
        try:
            p = subprocess.Popen(cmd, stdout=jf, stderr=ef, preexec_fn=limit_mem(h.mem_gb))
            try:
                rc = p.wait(timeout=h.timeout)
            except subprocess.TimeoutExpired:
                os.killpg(p.pid, 9)
                p.wait()
                res["status"] = "TIMEOUT"
                res["detail"] = f"CBMC exceeded {h.timeout}s"
                res["wall_s"] = time.time() - t0
                return res
        except Exception as e:  # pragma: no cover
            res["detail"] = f"could not run cbmc: {e}"
            return res
    res["wall_s"] = time.time() - t0
    res["cbmc_rc"] = rc
    try:
        m = re.search(r"MAXRSS_KB (\d+)", open(epath).read())
        if m:
            res["peak_rss_mb"] = int(m.group(1)) // 1024
        os.remove(epath)
    except OSError:
        pass
    try:
        data = json.load(open(jpath))
    except Exception as e:
        res["status"] = "ERROR"
        res["detail"] = f"CBMC output unparsable (rc={rc}; out of memory under the {h.mem_gb} GB cap?): {e}"
        return res
    results = None
    stats = {}
    prover_status = None
    errors = []
    for item in data:
        if "result" in item:
            results = item["result"]
        if "cProverStatus" in item:
            prover_status = item["cProverStatus"]
        txt = item.get("messageText", "")
        if item.get("messageType") == "ERROR":
            errors.append(txt)
        m = re.match(r"(\d+) variables, (\d+) clauses", txt)
        if m:
            stats["variables"] = max(stats.get("variables", 0), int(m.group(1)))
            stats["clauses"] = max(stats.get("clauses", 0), int(m.group(2)))
            stats["solver_calls"] = stats.get("solver_calls", 0) + 1
        m = re.match(r"Runtime (Solver|decision procedure|Symex|Convert SSA|Postprocess Equation): ([\d.e+-]+)s", txt)
        if m:
            key = "t_" + m.group(1).lower().replace(" ", "_")
            stats[key] = round(stats.get(key, 0.0) + float(m.group(2)), 3)
        m = re.match(r"size of program expression: (\d+) steps", txt)
        if m:
            stats["program_steps"] = int(m.group(1))
    res["stats"] = stats
    if results is None:
        res["status"] = "ERROR"
        res["detail"] = f"CBMC produced no result (rc={rc}, status={prover_status}): {' | '.join(errors)[-1500:]}"
        return res
    checks = []
    for r in results:
        loc = r.get("sourceLocation", {})
        desc = re.sub(r"^\[KANI_CHECK_ID_[^\]]*\]\s*", "", r.get("description", ""))
        checks.append({
            "id": r.get("property", ""),
            "class": loc.get("propertyClass", r.get("property", "").rsplit(".", 2)[-2] if r.get("property", "").count(".") >= 2 else ""),
            "desc": desc,
            "function": loc.get("function", ""),
            "file": loc.get("file", ""),
            "line": loc.get("line", ""),
            "status": r.get("status"),
        })
    res["checks"] = checks
    res["status"] = "DONE"
    if not os.environ.get("VERIF_KEEP"):
        for f in (goto, jpath):
            try:
                os.remove(f)
            except OSError:
                pass
    return res


# --------------------------------------------------------------------------------------------
# Classification
# --------------------------------------------------------------------------------------------

IGNORED_CLASSES = {"reachability_check"}
MACHINERY_MARKERS = ("verif model capacity exceeded", "VERIF-HARNESS-BUG")


def classify(h, res):
    """Returns dict(verdict, failures, covers, counts...). verdict in OK/FAIL/ERROR."""
    out = {"verdict": "ERROR", "failures": [], "machinery": [], "covers_unsat": [], "covers_sat": 0,
           "n_checks": 0, "n_success": 0, "n_mila_checks": 0, "functions": []}
    if res["status"] != "DONE":
        out["machinery"].append(f"{res['status']}: {res['detail']}")
        return out
    functions = set()
    for c in res["checks"]:
        cls = c["class"]
        if cls in IGNORED_CLASSES:
            continue
        if cls == "cover":
            if c["status"] == "FAILURE" or c["status"] == "SATISFIED":
                out["covers_sat"] += 1
            elif c["status"] == "SUCCESS":
                out["covers_unsat"].append(c)
            else:
                out["undecided"] = out.get("undecided", 0) + 1
            continue
        out["n_checks"] += 1
        if c["file"].startswith(REPO + "/src") or c["function"].startswith("mila::"):
            out["n_mila_checks"] += 1
            functions.add(c["function"])
        if c["status"] == "SUCCESS":
            out["n_success"] += 1
            continue
        if c["status"] != "FAILURE":
            # CBMC could not decide this property (solver ran out of memory, ...)
            undecided = out.setdefault("undecided", 0) + 1
            out["undecided"] = undecided
            continue
        if cls == "unwind" or "unwinding assertion" in c["desc"]:
            out["machinery"].append(f"unwind bound too small: {c['function']} ({c['desc']})")
        elif cls == "unsupported_construct" or "is not currently supported by Kani" in c["desc"]:
            out["machinery"].append(f"unsupported construct reachable: {c['desc']} in {c['function']}")
        elif any(mk in c["desc"] for mk in MACHINERY_MARKERS):
            out["machinery"].append(f"harness/model limit: {c['desc']} in {c['function']}")
        else:
            out["failures"].append(c)
    out["functions"] = sorted(functions)
    if out.get("undecided"):
        out["machinery"].append(f"{out['undecided']} properties left undecided by CBMC (status ERROR/UNKNOWN: solver out of memory under the {h.mem_gb} GB cap?)")
    if h.expect == "witness":
        # reachability twin: its final assert!(false) must be violated, nothing else may go wrong
        hit = [c for c in out["failures"] if "VACUITY-WITNESS" in c["desc"]]
        other = [c for c in out["failures"] if "VACUITY-WITNESS" not in c["desc"]]
        out["failures"] = other
        if not hit:
            out["machinery"].append("vacuity witness not reached: harness is vacuous")
    if out["covers_unsat"]:
        for c in out["covers_unsat"]:
            out["machinery"].append(f"cover not satisfiable (vacuous branch): {c['desc']} @ {c['function']}")
    if out["failures"]:
        out["verdict"] = "FAIL"
    elif out["machinery"]:
        out["verdict"] = "ERROR"
    else:
        out["verdict"] = "OK"
    return out


# --------------------------------------------------------------------------------------------
# Known findings
# --------------------------------------------------------------------------------------------

def load_known():
    """Lines: `finding: property=<id> harness=<harness name> where=<function substring> what=<description substring> :: text`
              `fixed: property=<id> <commit> <what failed>`   (informational, suppresses nothing)"""
    out = []
    if not os.path.exists(KNOWN):
        return out
    for ln in open(KNOWN):
        ln = ln.strip()
        if not ln.startswith("finding:"):
            continue
        m = re.match(r"finding:\s*property=(\S+)\s+harness=(\S+)\s+where=(.+?)\s+what=(.+?)\s*::\s*(.*)$", ln)
        if m:
            out.append({"prop": m.group(1), "harness": m.group(2), "where": m.group(3).strip(),
                        "what": m.group(4).strip(), "text": m.group(5).strip()})
    return out


def match_known(prop, harness, check, known):
    """A finding is identified by property + the harness (= the specific scenario that fails) + the function
    and description of the failing check; the same check failing in any other scenario is not suppressed."""
    for k in known:
        if (k["prop"] == prop and k["harness"] == harness and k["where"] in check["function"]
                and k["what"] in check["desc"]):
            return k
    return None


# --------------------------------------------------------------------------------------------
# Replay (Kani concrete playback -> native unit test against the real crate)
# --------------------------------------------------------------------------------------------

def extract_concrete_values(trace):
    """Kani's concrete-playback rule, applied to a CBMC JSON trace: every value returned by
    kani::any_raw_* (one assignment per scalar / per array element), in call order, as
    little-endian bytes."""
    vals = []
    for st in trace:
        if st.get("stepType") != "assignment":
            continue
        lhs = str(st.get("lhs", ""))
        fn = st.get("sourceLocation", {}).get("function", "")
        if not lhs.startswith("goto_symex$$return_value") or not fn.startswith("kani::any_raw_"):
            continue
        v = st.get("value", {})
        if "binary" not in v:
            continue  # whole-array assignment; its elements follow one by one
        bits = v["binary"]
        width = int(v.get("width", len(bits)))
        nbytes = max(1, (width + 7) // 8)
        vals.append(list(int(bits, 2).to_bytes(nbytes, "little")))
    return vals


def cbmc_counterexamples(h, info, workdir, wanted):
    """Re-run CBMC for one failing check without formula slicing (so the trace assigns every nondet
    value, as Kani's concrete playback does); if CBMC cannot build the unsliced formula, fall back to
    the sliced one. Returns [(check, concrete values)]."""
    out = _cbmc_counterexamples(h, info, workdir, wanted, sliced=False)
    if not out:
        out = _cbmc_counterexamples(h, info, workdir, wanted, sliced=True)
    return out


def _cbmc_counterexamples(h, info, workdir, wanted, sliced):
    goto, err = prepare_goto(h, info, workdir)
    if err:
        return []
    unwind = h.unwind if h.unwind is not None else info.get("unwind")
    cmd = ["cbmc"] + [f for f in CBMC_FLAGS if sliced or f != "--slice-formula"]
    if unwind is not None:
        cmd += ["--unwind", str(unwind)]
    pairs, _ = resolve_unwindset(h, goto)
    pairs = list(pairs or []) + recursion_unwindset(h, workdir)
    if pairs:
        cmd += ["--unwindset", ",".join(pairs)]
    cmd += h.cbmc_args
    # one failing check is enough for a replay; asking for it alone keeps the trace small
    first = sorted({c["id"] for c in wanted})[0]
    cmd += ["--property", first, "--stop-on-fail"]
    cmd += [goto, "--json-ui"]
    jpath = os.path.join(workdir, h.name + ".trace.json")
    with open(jpath, "w") as jf:
        p = subprocess.Popen(cmd, stdout=jf, stderr=subprocess.STDOUT, preexec_fn=limit_mem(max(h.mem_gb, 16)))
        try:
            p.wait(timeout=3 * h.timeout)
        except subprocess.TimeoutExpired:
            os.killpg(p.pid, 9)
            p.wait()
            return []
    try:
        data = json.load(open(jpath))
    except Exception as ex:
        log(f"   (trace run of {h.name}: output unparsable: {ex})")
        return []
    out = []
    keys = {(c["id"]) for c in wanted}
    for item in data:
        if not isinstance(item, dict):
            continue
        for r in item.get("result", []):
            if r.get("status") == "FAILURE" and r.get("property") in keys and "trace" in r:
                out.append((r.get("property"), extract_concrete_values(r["trace"])))
        # --stop-on-fail prints the trace as a top-level item
        if "trace" in item and not out:
            out.append((first, extract_concrete_values(item["trace"])))
    if not out:
        msgs = [str(i.get("messageText", ""))[:200] for i in data if isinstance(i, dict) and i.get("messageType") in ("ERROR", "WARNING")]
        log(f"   (trace run of {h.name} for property {first}: no trace; messages: {msgs[-3:]})")
    for f in (goto, jpath):
        try:
            os.remove(f)
        except OSError:
            pass
    return out


def replay(h, prop, failures, info=None, workdir=None):
    """Turn the solver's assignment into a unit test (Kani's concrete-playback runtime feeds the values to
    the harness's kani::any() calls) and run it natively against the real crate, dev profile = the
    overflow-checked semantics Kani models. Returns (reproduced, path, note)."""
    os.makedirs(os.path.join(REPLAYS, prop), exist_ok=True)
    path = os.path.join(REPLAYS, prop, h.name + ".replay.txt")
    cex = cbmc_counterexamples(h, info, workdir, failures) if info else []
    if not cex:
        open(path, "w").write(f"harness {h.name}: no counterexample trace could be extracted\n")
        return False, path, "no counterexample trace extracted"
    # distinct value vectors only, at most 4 tests
    seen, tests = [], []
    for prop_id, vals in cex:
        if vals not in seen:
            seen.append(vals)
            tests.append((prop_id, vals))
    tests = tests[:4]
    blocks = []
    for k, (prop_id, vals) in enumerate(tests):
        body = ",\n".join("        vec![" + ", ".join(str(b) for b in v) + "]" for v in vals)
        blocks.append(
            f"#[test]\nfn verif_replay_{h.name}_{k}() {{\n"
            f"    // counterexample for: {prop_id}\n"
            f"    crate::util::set_playback(true);\n"
            f"    let concrete_vals: Vec<Vec<u8>> = vec![\n{body}\n    ];\n"
            f"    kani::concrete_playback_run(concrete_vals, {h.name});\n}}")
    with open(path, "w") as f:
        f.write(f"# property {prop}, harness {h.module}::{h.name} ({os.path.relpath(h.file, VERIF)}:{h.line})\n")
        f.write("# failing checks reported by CBMC:\n")
        for c in failures:
            f.write(f"#   {c['function']} @ {c['file']}:{c['line']}: {c['desc']}\n")
        f.write("# unit test(s) built from the solver's assignment (values of the harness's kani::any() calls, in order);\n")
        f.write("# re-run with: python3 /verif/run_check.py --replay " + path + "\n")
        f.write(f"# module: {h.module}\n")
        for b in blocks:
            f.write(b + "\n")
    rc, log_txt, per_test = run_replay_tests(h.module, blocks)
    reproduced = [per_test.get(f"verif_replay_{h.name}_{k}") == "FAILED" for k in range(len(tests))]
    with open(path, "a") as f:
        f.write("# native run (dev profile):\n")
        for ln in log_txt.split("\n"):
            f.write("#   " + ln + "\n")
    return any(reproduced), path, "reproduced natively" if any(reproduced) else "did not reproduce natively"


def run_replay_tests(module, blocks):
    """Append the tests to a scratch copy of the harness crate and run them with `cargo kani playback`."""
    rdir = os.path.join(WORK, f"replay_{module}_{os.getpid()}")
    shutil.rmtree(rdir, ignore_errors=True)
    os.makedirs(rdir)
    ensure_lock_file()
    for item in ("src", "Cargo.toml", "Cargo.lock", ".cargo"):
        s_ = os.path.join(CRATE, item)
        d_ = os.path.join(rdir, item)
        if os.path.isdir(s_):
            shutil.copytree(s_, d_)
        elif os.path.exists(s_):
            shutil.copy(s_, d_)
    mp = os.path.join(rdir, "src", module + ".rs")
    src = open(mp).read()
    src += "\n#[cfg(test)]\nmod verif_replay {\n    use super::*;\n" + "\n".join(blocks) + "\n}\n"
    open(mp, "w").write(src)
    env = dict(ENV)
    env["CARGO_TARGET_DIR"] = os.path.join(TARGET, "playback")
    q = run(["cargo", "kani", "playback", "-Z", "concrete-playback", "--", "verif_replay"], cwd=rdir, env=env,
            timeout=3600)
    shutil.rmtree(rdir, ignore_errors=True)
    per_test = dict(re.findall(r"test \S*?(verif_replay_\w+) \.\.\. (\w+)", q.stdout))
    keep_from = q.stdout.find("running ")
    log_txt = q.stdout[keep_from:][-5000:] if keep_from >= 0 else q.stdout[-3000:]
    return q.returncode, log_txt, per_test


def replay_file(path):
    txt = open(path).read()
    m = re.search(r"# module: (\w+)", txt)
    blocks = re.findall(r"(#\[test\]\s*fn verif_replay_\w+\s*\(\)\s*\{.*?\n\})", txt, re.S)
    if not m or not blocks:
        log("nothing to replay in " + path)
        return 2
    rc, log_txt, per_test = run_replay_tests(m.group(1), blocks)
    log(log_txt)
    return 1 if any(v == "FAILED" for v in per_test.values()) else 0


# --------------------------------------------------------------------------------------------
# Main
# --------------------------------------------------------------------------------------------

def git_head(path):
    try:
        return run(["git", "-C", path, "rev-parse", "--short", "HEAD"]).stdout.strip()
    except Exception:
        return "?"


def repo_dirty():
    try:
        return bool(run(["git", "-C", REPO, "status", "--porcelain", "--", "src"]).stdout.strip())
    except Exception:
        return False


def write_evidence(prop, tier, seed, t_start, harness_reports, build_s, violations, known_hits, errors, level="model_checking"):
    os.makedirs(EVID, exist_ok=True)
    n_checks = sum(r["n_checks"] for r in harness_reports)
    n_success = sum(r["n_success"] for r in harness_reports)
    functions = sorted({f for r in harness_reports for f in r["functions"]})
    solver_s = round(sum(r.get("stats", {}).get("t_solver", 0.0) + r.get("stats", {}).get("t_decision_procedure", 0.0)
                         for r in harness_reports), 3)
    nontrivial = sum(1 for r in harness_reports if r["n_mila_checks"] > 0 and r["verdict"] in ("OK", "KNOWN"))
    samples = []
    for r in harness_reports[:60]:
        samples.append({"harness": r["name"], "bounds": r["bounds"], "claims": r["claims"],
                        "verdict": r["verdict"], "checks_decided": r["n_checks"],
                        "checks_in_mila_code": r["n_mila_checks"], "cbmc_wall_s": round(r["wall_s"], 1),
                        "unwind": r.get("unwind"), "unwindset": r.get("unwindset"),
                        "peak_rss_mb": r.get("peak_rss_mb"), "sat": r.get("stats", {})})
    assumptions = sorted({a for r in harness_reports for a in r["assumptions"]})
    stubs = sorted({s for r in harness_reports for s in r.get("stubs", [])})
    ev = {
        "property_id": prop,
        "tier": tier,
        "seed": seed,
        "level": level,
        "coverage": {
            "evaluations": len(harness_reports),
            "distinct_nontrivial": nontrivial,
            "rule": "one evaluation = one CBMC query (a Kani proof harness over symbolic inputs, compiled from /repo's "
                    "working tree, unwinding assertions on). A query is non-trivial when at least one instrumented check "
                    "inside mila's own code (overflow, index, slice, unwrap, explicit assertion) was reachable and decided, "
                    "and all of the harness's cover!() witnesses were satisfiable. Harness names are distinct by construction.",
            "samples": samples,
            "exhaustive": False,
            "solver_queries": len(harness_reports),
            "assertions_decided": n_checks,
            "assertions_success": n_success,
            "functions_encoded": functions,
            "solver_time_s": solver_s,
            "build_s": round(build_s, 1),
            "engine": "Kani 0.68.0 -> CBMC 6.11.0 (cadical), driven per harness by run_check.py",
            "repo_head": git_head(REPO),
            "repo_worktree_dirty": repo_dirty(),
            "stubs": stubs,
            "known_findings_hit": known_hits,
            "errors": errors,
            "outside_claim": sorted({r["outside"] for r in harness_reports if r.get("outside")}),
        },
        "assumptions": assumptions + [
            "bounded claim: holds for every input inside each harness's stated bounds, says nothing outside them",
            "container models of --cfg mila_verif (src/verif_support.rs) stand in for std HashMap/HashSet and indexmap::IndexMap",
            "Kani models the overflow-checked (dev) profile; absence of overflow implies the wrapping profile computes the same values",
        ],
        "wall_s": round(time.time() - t_start, 1),
        "violations": violations,
    }
    json.dump(ev, open(os.path.join(EVID, prop + ".json"), "w"), indent=1)


def main():
    ap = argparse.ArgumentParser()
    ap.add_argument("prop", nargs="?")
    ap.add_argument("--tier", default=os.environ.get("VERIF_TIER", "quick"))
    ap.add_argument("--only", default=None)
    ap.add_argument("--jobs", type=int, default=int(os.environ.get("VERIF_JOBS", "10")))
    ap.add_argument("--setup", action="store_true")
    ap.add_argument("--list", action="store_true")
    ap.add_argument("--replay", default=None)
    ap.add_argument("--no-replay", action="store_true")
    ap.add_argument("--timeout-cap", type=int, default=int(os.environ.get("VERIF_TIMEOUT_CAP", "0")),
                    help="trial runs: cap every harness's solver timeout (seconds); 0 = use the declared ones")
    ap.add_argument("--tier-only", action="store_true", help="with --tier thorough: only the thorough-tier harnesses")
    ap.add_argument("--admit-scale", type=float, default=float(os.environ.get("VERIF_ADMIT_SCALE", "0.7")),
                    help="admission weight = declared memory cap x this factor, against a 52 GB budget")
    args = ap.parse_args()
    seed = int(os.environ.get("VERIF_SEED", "0"))
    t_start = time.time()

    if args.replay:
        sys.exit(replay_file(args.replay))

    allh = parse_harnesses()
    if args.list:
        for h in allh:
            print(h.prop, h.tier, h.name, h.timeout, h.mem_gb)
        return
    if args.setup:
        hs = [h for h in allh if h.name == "setup_smoke"]
        os.makedirs(WORK, exist_ok=True)
        info, dt = build(hs, os.path.join(WORK, "setup"))
        log(f"setup: harness crate and dependencies compiled with Kani in {dt:.0f}s")
        return

    prop = args.prop.upper()
    tiers = ("quick",) if args.tier == "quick" else ("quick", "thorough")
    if args.tier_only:
        tiers = (args.tier,)
    hs = [h for h in allh if h.prop == prop and h.tier in tiers]
    if args.timeout_cap:
        for h in hs:
            h.timeout = min(h.timeout, args.timeout_cap)
    if args.only:
        pats = [x for x in args.only.split(",") if x]
        hs = [h for h in hs if any(x in h.name for x in pats)]
    if not hs:
        raise SystemExit(f"ERROR: no harnesses for {prop}")
    workdir = os.path.join(WORK, prop)
    shutil.rmtree(workdir, ignore_errors=True)
    os.makedirs(workdir)
    log(f"[{prop}] tier={args.tier} harnesses={len(hs)} building /repo working tree with Kani ...")
    info, build_s = build(hs, workdir)
    log(f"[{prop}] build {build_s:.0f}s; running CBMC ({args.jobs} parallel)")

    # heavy harnesses first
    order = sorted(hs, key=lambda h: -h.timeout)
    results = {}
    mem_budget = float(os.environ.get("VERIF_MEM_BUDGET", "52"))  # GB, shared by this runner's concurrent solvers
    # simple admission control on declared memory caps
    pending = list(order)
    running = {}
    with concurrent.futures.ThreadPoolExecutor(max_workers=args.jobs) as ex:
        while pending or running:
            # admission by half the declared cap: caps are hard limits (RLIMIT_AS), typical peaks are
            # far below them (evidence records peak_rss_mb per harness)
            used = sum(h.mem_gb * args.admit_scale for h in running.values())
            started = False
            for h in list(pending):
                if len(running) < args.jobs and (used + h.mem_gb * args.admit_scale <= mem_budget or not running):
                    fut = ex.submit(run_cbmc, h, info[h.name], workdir)
                    running[fut] = h
                    pending.remove(h)
                    used += h.mem_gb * args.admit_scale
                    started = True
            if not running:
                continue
            done, _ = concurrent.futures.wait(list(running), timeout=None if not started else 0.2,
                                              return_when=concurrent.futures.FIRST_COMPLETED)
            for fut in done:
                h = running.pop(fut)
                results[h.name] = fut.result()
                r = results[h.name]
                log(f"[{prop}]   {h.name}: {r['status']} {r['wall_s']:.1f}s rss={r.get('peak_rss_mb', '?')}MB {r['detail'][:200]}")

    known = load_known()
    reports, violations, errors, known_hits = [], 0, [], []
    violation_lines = []
    for h in hs:
        res = results[h.name]
        cl = classify(h, res)
        rep = {"name": h.name, "bounds": h.bounds, "claims": h.claims, "assumptions": h.assumes,
               "verdict": cl["verdict"], "n_checks": cl["n_checks"], "n_success": cl["n_success"],
               "n_mila_checks": cl["n_mila_checks"], "functions": cl["functions"], "wall_s": res["wall_s"],
               "stats": res.get("stats", {}), "unwind": res.get("unwind"), "unwindset": res.get("unwindset"),
               "stubs": res.get("stubs", []), "covers_sat": cl["covers_sat"], "peak_rss_mb": res.get("peak_rss_mb")}
        for msg in cl["machinery"]:
            errors.append(f"{h.name}: {msg}")
        if cl["failures"]:
            unknown = []
            for c in cl["failures"]:
                k = match_known(prop, h.name, c, known)
                if k:
                    line = f"KNOWN-FINDING: property={prop} {k['text']} [{c['function']}: {c['desc']}; harness {h.name}]"
                    if line not in known_hits:
                        known_hits.append(line)
                else:
                    unknown.append(c)
            if unknown:
                for c in unknown:
                    log(f"[{prop}]   FAILED CHECK in {h.name}: {c['function']} {c['file']}:{c['line']}: {c['desc']}")
                if args.no_replay:
                    reproduced, path, note = True, os.path.join(REPLAYS, prop, h.name + ".noreplay.txt"), "replay skipped"
                    os.makedirs(os.path.dirname(path), exist_ok=True)
                    open(path, "w").write("\n".join(f"{c['function']} {c['file']}:{c['line']}: {c['desc']}" for c in unknown))
                else:
                    log(f"[{prop}]   replaying counterexample of {h.name} natively ...")
                    try:
                        reproduced, path, note = replay(h, prop, unknown, info[h.name], workdir)
                    except Exception as e:
                        reproduced, path, note = False, "", f"replay machinery failed: {e}"
                if reproduced:
                    violations += 1
                    violation_lines.append(f"VIOLATION property={prop} replay={path}")
                    rep["verdict"] = "VIOLATION"
                else:
                    errors.append(f"{h.name}: counterexample {note} ({path}); failing checks: "
                                  + "; ".join(f"{c['function']}: {c['desc']}" for c in unknown))
                    rep["verdict"] = "UNCONFIRMED"
            else:
                rep["verdict"] = "KNOWN" if not cl["machinery"] else "ERROR"
        reports.append(rep)

    write_evidence(prop, "thorough" if args.tier == "thorough" else "quick", seed, t_start, reports, build_s,
                   violations, known_hits, errors)
    for line in known_hits:
        log(line)
    ok = sum(1 for r in reports if r["verdict"] in ("OK", "KNOWN"))
    log(f"[{prop}] {ok}/{len(reports)} harnesses decided without violation; "
        f"{sum(r['n_checks'] for r in reports)} assertions decided; wall {time.time() - t_start:.0f}s")
    if violation_lines:
        for v in violation_lines:
            log(v)
        sys.exit(1)
    if errors:
        for e in errors:
            log(f"INCONCLUSIVE: {e}")
        sys.exit(2)
    sys.exit(0)


if __name__ == "__main__":
    main()
